//! C06 generators: boundary lattices of the numeric types delivered by every route
//! (assignment, array element, record field, by-value parameter, FUNCTION result,
//! FOR start / limit / increment, READ, INPUT) and integer arithmetic at the boundaries.

use crate::gast::*;
use crate::gen01::Snip;

pub fn bounds(t: Ty) -> (f64, f64) {
    match t {
        Ty::Int => (-32768.0, 32767.0),
        Ty::Long => (-2147483648.0, 2147483647.0),
        _ => (-16777216.0, 16777216.0),
    }
}

/// The boundary lattice of a target type.
pub fn lattice(t: Ty) -> Vec<f64> {
    let (lo, hi) = bounds(t);
    let mut v = vec![
        lo - 1.0, lo - 0.75, lo - 0.25, lo, lo + 0.25, lo + 1.0, -1.0, -0.75, -0.25, 0.0, 0.25, 0.75, 1.0, hi - 1.0,
        hi - 0.25, hi, hi + 0.25, hi + 0.75, hi + 1.0,
    ];
    if t == Ty::Int {
        v.extend([70000.0, -70000.0]);
    }
    if t == Ty::Int || t == Ty::Long {
        // the ties next to the boundaries: MAX + .5 overflows under either tie rule; MIN - .5 and the
        // ties inside the range depend on the rule and are left undecided by the reference (R1)
        v.extend([hi + 0.5, lo - 0.5, hi - 0.5, lo + 0.5]);
    }
    v
}

/// A literal expression of the given source type denoting `x`, if one exists.
pub fn literal_of(x: f64, src: Ty) -> Option<Expr> {
    let whole = x.fract() == 0.0;
    let mag = x.abs();
    let body = match src {
        Ty::Int => {
            if !whole || !(-32768.0..=32767.0).contains(&x) || x == -32768.0 {
                return None;
            }
            format!("{}", mag)
        }
        Ty::Long => {
            // a decimal literal is LONG when it is beyond the INTEGER range
            if !whole || mag <= 32767.0 || mag > 2147483647.0 {
                return None;
            }
            format!("{}", mag)
        }
        Ty::Single => {
            if ((x as f32) as f64) != x {
                return None;
            }
            if whole { format!("{}.0", mag) } else { format!("{}", mag) }
        }
        Ty::Double => {
            if whole { format!("{}.0#", mag) } else { format!("{}#", mag) }
        }
        Ty::Str => return None,
    };
    let lit = Expr::Num(body);
    Some(if x < 0.0 { Expr::Neg(Box::new(lit)) } else { lit })
}

fn tv(base: &str, t: Ty) -> Expr {
    var(&format!("{}{}", base, t.suffix()))
}

/// TYPE, SUB and FUNCTION definitions shared by all C06 snippets.
pub fn header() -> Prog {
    let mut b = B::new();
    let mut subs = vec![];
    for t in Ty::NUMERIC {
        // SUB PV<t> (X<t>): prints its by-value parameter
        let x = tv("X", t);
        let body = vec![b.print(vec![st("p"), x.clone()])];
        let id = b.id();
        subs.push(SubDef {
            id,
            name: format!("PV{}", t.keyword()),
            is_function: false,
            params: vec![Param { name: format!("X{}", t.suffix()), ty: None, is_array: false }],
            body,
            is_static: false,
        });
        // FUNCTION FR<t> (V#): converts its argument on assignment to the function name
        let fname = format!("FR{}{}", t.keyword(), t.suffix());
        let body = vec![b.assign(var(&fname), var("V#"))];
        let id = b.id();
        subs.push(SubDef {
            id,
            name: fname,
            is_function: true,
            params: vec![Param { name: "V#".into(), ty: None, is_array: false }],
            body,
            is_static: false,
        });
    }
    Prog {
        types: vec![TypeDef {
            name: "Rec".into(),
            fields: vec![
                ("FI".into(), DeclTy::Scalar(Ty::Int)),
                ("FL".into(), DeclTy::Scalar(Ty::Long)),
                ("FS".into(), DeclTy::Scalar(Ty::Single)),
                ("FD".into(), DeclTy::Scalar(Ty::Double)),
            ],
        }],
        subs,
        declare: true,
        main: vec![],
        ..Default::default()
    }
}

/// Statements every batch starts with (declarations the snippets rely on).
pub fn prelude(b: &mut B) -> Vec<Stmt> {
    let mut v = vec![b.s(K::Dim {
        shared: false,
        redim: false,
        vars: vec![DimVar { name: "R".into(), ty: Some(DeclTy::Rec("Rec".into())), dims: vec![] }],
    })];
    for t in Ty::NUMERIC {
        v.push(b.s(K::Dim {
            shared: false,
            redim: false,
            vars: vec![DimVar { name: format!("AR{}", t.suffix()), ty: None, dims: vec![(None, num(2))] }],
        }));
    }
    v
}

pub struct Snip06 {
    pub snip: Snip,
    pub stdin: String,
    /// within one unit of a type boundary, or crossing it
    pub boundary: bool,
}

pub const ROUTES: usize = 9;

fn field_of(t: Ty) -> Expr {
    Expr::Field(
        Box::new(var("R")),
        match t {
            Ty::Int => "FI",
            Ty::Long => "FL",
            Ty::Single => "FS",
            _ => "FD",
        }
        .to_string(),
    )
}

/// Conversions: every (source type, target type, lattice value, route, operand form).
pub fn conversions() -> Vec<Snip06> {
    let mut out = vec![];
    for target in Ty::NUMERIC {
        let (lo, hi) = bounds(target);
        for src in Ty::NUMERIC {
            for x in lattice(target) {
                let Some(lit) = literal_of(x, src) else { continue };
                let boundary = (x - lo).abs() <= 1.0 || (x - hi).abs() <= 1.0 || x < lo || x > hi;
                for route in 0..ROUTES {
                    for form in 0..2 {
                        // form 0: literal source, form 1: the value held in a variable of the source type
                        if form == 1 && (route == 6 || route == 7) {
                            continue;
                        }
                        let mut b = B::new();
                        let mut stmts = vec![];
                        let mut stdin = String::new();
                        let source = if form == 0 {
                            lit.clone()
                        } else {
                            stmts.push(b.assign(tv("SRC", src), lit.clone()));
                            tv("SRC", src)
                        };
                        match route {
                            0 => {
                                stmts.push(b.assign(tv("T", target), source));
                                stmts.push(b.print(vec![tv("T", target)]));
                            }
                            1 => {
                                let el = Expr::Index(format!("AR{}", target.suffix()), vec![num(1)]);
                                stmts.push(b.assign(el.clone(), source));
                                stmts.push(b.print(vec![el]));
                            }
                            2 => {
                                stmts.push(b.assign(field_of(target), source));
                                stmts.push(b.print(vec![field_of(target)]));
                            }
                            3 => {
                                // by value: the argument is an expression, not a variable
                                let arg = Expr::Paren(Box::new(source));
                                stmts.push(b.s(K::Call(format!("PV{}", target.keyword()), vec![arg])));
                            }
                            4 => {
                                if src != Ty::Double && form == 1 {
                                    continue;
                                }
                                let arg = Expr::Paren(Box::new(source));
                                stmts.push(b.print(vec![call(&format!("FR{}{}", target.keyword(), target.suffix()), vec![arg])]));
                            }
                            5 => {
                                // FOR start value and the increment past it
                                let k = tv("K", target);
                                let body = vec![b.print(vec![st("i"), k.clone()])];
                                stmts.push(b.s(K::For { var: k.clone(), from: source.clone(), to: source, step: None, body, next_var: false }));
                                stmts.push(b.print(vec![st("after"), k]));
                            }
                            6 => {
                                // READ
                                let text = match &lit {
                                    Expr::Neg(inner) => match &**inner {
                                        Expr::Num(t) => format!("-{}", t),
                                        _ => continue,
                                    },
                                    Expr::Num(t) => t.clone(),
                                    _ => continue,
                                };
                                stmts.push(b.s(K::Data(vec![DataItem::Num(text)])));
                                stmts.push(b.s(K::Read(vec![tv("T", target)])));
                                stmts.push(b.print(vec![tv("T", target)]));
                            }
                            7 => {
                                // INPUT from the console: the written decimal text
                                if src != Ty::Double {
                                    continue;
                                }
                                stdin = format!("{}\n", x);
                                stmts.push(b.s(K::Input(None, vec![tv("T", target)])));
                                stmts.push(b.print(vec![tv("T", target)]));
                            }
                            _ => {
                                // FOR limit: the limit is converted to the counter's type before the loop starts
                                let k = tv("K", target);
                                let body = vec![];
                                let start = if x >= 0.0 { hi - 1.0 } else { lo + 1.0 };
                                let Some(start_lit) = literal_of(start, if target == Ty::Int { Ty::Int } else { Ty::Double }) else { continue };
                                let step = if x >= 0.0 { num(1) } else { num(-1) };
                                if (x - start).abs() > 3.0 {
                                    continue;
                                }
                                stmts.push(b.s(K::For { var: k.clone(), from: start_lit, to: source, step: Some(step), body, next_var: false }));
                                stmts.push(b.print(vec![st("after"), k]));
                            }
                        }
                        out.push(Snip06 {
                            snip: Snip {
                                stmts,
                                label: format!("{:?}->{:?} value {} route{} form{}", src, target, x, route, form),
                                ill_typed: false,
                            },
                            stdin,
                            boundary,
                        });
                    }
                }
            }
        }
    }
    out
}

/// Arithmetic at the boundaries of the whole-number types.
pub fn arithmetic() -> Vec<Snip06> {
    let mut out = vec![];
    let ints = [-32768.0, -32767.0, -2.0, -1.0, 0.0, 1.0, 2.0, 32766.0, 32767.0, 181.0, 182.0];
    let longs = [-2147483648.0, -2147483647.0, -65536.0, -1.0, 0.0, 1.0, 2.0, 46340.0, 46341.0, 65536.0, 2147483646.0, 2147483647.0];
    let ops = [BinOp::Add, BinOp::Sub, BinOp::Mul, BinOp::Div, BinOp::Mod];
    for (ta, va) in [(Ty::Int, &ints[..]), (Ty::Long, &longs[..])] {
        for (tb, vb) in [(Ty::Int, &ints[..]), (Ty::Long, &longs[..])] {
            for &a in va {
                for &bv in vb {
                    for op in ops {
                        for target in [None, Some(Ty::Int), Some(Ty::Long)] {
                            if target.is_some() && !matches!(op, BinOp::Div | BinOp::Mod | BinOp::Mul) {
                                continue;
                            }
                            let mut b = B::new();
                            let la = tv("A", ta);
                            let lb = tv("B", tb);
                            // operands are placed in typed variables: -32768 cannot be written as an INTEGER literal
                            let lit = |x: f64| -> Expr {
                                if x == -32768.0 {
                                    bin(BinOp::Sub, num(-32767), num(1))
                                } else if x == -2147483648.0 {
                                    bin(BinOp::Sub, num(-2147483647i64), num(1))
                                } else {
                                    num(x as i64)
                                }
                            };
                            let mut stmts = vec![b.assign(la.clone(), lit(a)), b.assign(lb.clone(), lit(bv))];
                            let e = bin(op, la, lb);
                            match target {
                                None => stmts.push(b.print(vec![e])),
                                Some(t) => {
                                    // the same expression stored bare and inside parentheses
                                    let mut stmts2 = stmts.clone();
                                    stmts2.push(b.assign(tv("T", t), Expr::Paren(Box::new(e.clone()))));
                                    stmts2.push(b.print(vec![tv("T", t)]));
                                    out.push(Snip06 {
                                        snip: Snip { stmts: stmts2, label: format!("{:?} {} {:?} {:?} {} -> {:?} (parenthesised)", ta, a, op, tb, bv, target), ill_typed: false },
                                        stdin: String::new(),
                                        boundary: true,
                                    });
                                    stmts.push(b.assign(tv("T", t), e));
                                    stmts.push(b.print(vec![tv("T", t)]));
                                }
                            }
                            out.push(Snip06 {
                                snip: Snip { stmts, label: format!("{:?} {} {:?} {:?} {} -> {:?}", ta, a, op, tb, bv, target), ill_typed: false },
                                stdin: String::new(),
                                boundary: true,
                            });
                        }
                    }
                }
            }
        }
        if ta == Ty::Long {
            // quotients close to a whole number (exact dyadic fractions below 1e-4): they keep their fraction
            for (x, y) in [(16385i64, 16384i64), (-16385, 16384), (32767, 32768), (16383, 16384), (8193, 8192)] {
                for (tx, sfx) in [(Ty::Int, ""), (Ty::Double, ".0#")] {
                    if tx == Ty::Int && (x.abs() > 32767 || y.abs() > 32767) {
                        continue;
                    }
                    for target in [None, Some(Ty::Double), Some(Ty::Int)] {
                        let mut b = B::new();
                        let lx = if sfx.is_empty() { num(x) } else { Expr::Num(format!("{}{}", x, sfx)) };
                        let ly = if sfx.is_empty() { num(y) } else { Expr::Num(format!("{}{}", y, sfx)) };
                        let e = bin(BinOp::Div, lx, ly);
                        let mut stmts = vec![];
                        match target {
                            None => stmts.push(b.print(vec![e])),
                            Some(t) => {
                                stmts.push(b.assign(tv("T", t), e));
                                stmts.push(b.print(vec![tv("T", t)]));
                            }
                        }
                        out.push(Snip06 {
                            snip: Snip { stmts, label: format!("near-whole quotient {}{} / {}{} -> {:?}", x, sfx, y, sfx, target), ill_typed: false },
                            stdin: String::new(),
                            boundary: true,
                        });
                    }
                }
            }
        }
        // unary minus
        for &a in va {
            let mut b = B::new();
            let la = tv("A", ta);
            let lit = if a == -32768.0 {
                bin(BinOp::Sub, num(-32767), num(1))
            } else if a == -2147483648.0 {
                bin(BinOp::Sub, num(-2147483647i64), num(1))
            } else {
                num(a as i64)
            };
            let stmts = vec![b.assign(la.clone(), lit), b.print(vec![Expr::Neg(Box::new(la))])];
            out.push(Snip06 {
                snip: Snip { stmts, label: format!("neg {:?} {}", ta, a), ill_typed: false },
                stdin: String::new(),
                boundary: true,
            });
        }
    }
    out
}

// ---------------------------------------------------------------------------
// Floating point: arithmetic at the largest finite SINGLE / DOUBLE values, and the
// conversion DOUBLE -> SINGLE beyond the SINGLE range. The huge values are never
// printed (R14): every snippet prints comparisons (-1 / 0) only.
// ---------------------------------------------------------------------------

/// The largest finite value of the type and half of it, written as `d.d` / `d.d#` literals with all their digits.
pub fn float_extremes(t: Ty) -> (String, String) {
    match t {
        Ty::Single => (format!("{:.1}", f32::MAX as f64), format!("{:.1}", f32::MAX as f64 / 2.0)),
        _ => (format!("{:.1}#", f64::MAX), format!("{:.1}#", f64::MAX / 2.0)),
    }
}

pub fn float_arithmetic() -> Vec<Snip06> {
    let mut out = vec![];
    for t in [Ty::Single, Ty::Double] {
        let (max, half) = float_extremes(t);
        // named operands: M = MAX, H = MAX / 2, and small ones
        let big = |b: &mut B| -> Vec<Stmt> {
            vec![
                b.assign(tv("M", t), Expr::Num(max.clone())),
                b.assign(tv("H", t), Expr::Num(half.clone())),
                b.assign(tv("NM", t), Expr::Neg(Box::new(Expr::Num(max.clone())))),
                b.assign(tv("NH", t), Expr::Neg(Box::new(Expr::Num(half.clone())))),
            ]
        };
        let operands: Vec<Expr> = vec![tv("M", t), tv("H", t), tv("NM", t), tv("NH", t)];
        let smalls: Vec<Expr> = vec![num(2), num(-2), Expr::Num(".5".into()), Expr::Num("2.0".into()), Expr::Num("2.0#".into()), num(1), num(0)];
        let mut pairs: Vec<(Expr, Expr)> = vec![];
        for a in &operands {
            for b2 in &operands {
                pairs.push((a.clone(), b2.clone()));
            }
            for s in &smalls {
                pairs.push((a.clone(), s.clone()));
                pairs.push((s.clone(), a.clone()));
            }
        }
        for (a, bb) in pairs {
            for op in [BinOp::Add, BinOp::Sub, BinOp::Mul, BinOp::Div] {
                for store in [false, true] {
                    let mut b = B::new();
                    let mut stmts = big(&mut b);
                    let e = bin(op, a.clone(), bb.clone());
                    // probes: comparisons with the named values and the sign
                    let probes = |x: Expr| -> Vec<Expr> {
                        vec![
                            bin(BinOp::Eq, x.clone(), tv("M", t)),
                            bin(BinOp::Eq, x.clone(), tv("H", t)),
                            bin(BinOp::Eq, x.clone(), tv("NM", t)),
                            bin(BinOp::Eq, x.clone(), tv("NH", t)),
                            bin(BinOp::Gt, x.clone(), num(0)),
                            bin(BinOp::Lt, x, num(0)),
                        ]
                    };
                    if store {
                        stmts.push(b.assign(tv("T", t), e));
                        stmts.push(b.print(probes(tv("T", t))));
                    } else {
                        stmts.push(b.print(probes(Expr::Paren(Box::new(e)))));
                    }
                    out.push(Snip06 {
                        snip: Snip { stmts, label: format!("{:?} extremes: {:?} {:?} {:?}{}", t, a, op, bb, if store { " stored" } else { "" }), ill_typed: false },
                        stdin: String::new(),
                        boundary: true,
                    });
                }
            }
        }
        // unary minus
        for a in &operands {
            let mut b = B::new();
            let mut stmts = big(&mut b);
            stmts.push(b.print(vec![bin(BinOp::Eq, Expr::Neg(Box::new(a.clone())), tv("M", t)), bin(BinOp::Eq, Expr::Neg(Box::new(a.clone())), tv("NM", t))]));
            out.push(Snip06 { snip: Snip { stmts, label: format!("{:?} extremes: neg {:?}", t, a), ill_typed: false }, stdin: String::new(), boundary: true });
        }
    }
    // divisors that are not zero but smaller than the tolerance of the interpreter's comparisons (0.00001):
    // the quotient is an ordinary number, not a Division by zero
    for (dtext, _what) in [(".00000762939453125", "2^-17"), (".00000095367431640625", "2^-20"), (".0000152587890625", "2^-16")] {
        for numerator in ["1", "3", "-5", "1.5", "2.0#"] {
            for dbl in [false, true] {
                for negative in [false, true] {
                    for store in [false, true] {
                        let mut b = B::new();
                        let dlit = Expr::Num(if dbl { format!("{}#", dtext) } else { dtext.to_string() });
                        let dlit = if negative { Expr::Neg(Box::new(dlit)) } else { dlit };
                        let nlit = if let Some(r) = numerator.strip_prefix('-') { Expr::Neg(Box::new(Expr::Num(r.to_string()))) } else { Expr::Num(numerator.to_string()) };
                        let mut stmts = vec![];
                        let e = if store {
                            stmts.push(b.assign(var(if dbl { "DV#" } else { "DV!" }), dlit));
                            bin(BinOp::Div, nlit, var(if dbl { "DV#" } else { "DV!" }))
                        } else {
                            bin(BinOp::Div, nlit, dlit)
                        };
                        stmts.push(b.print(vec![e]));
                        out.push(Snip06 {
                            snip: Snip { stmts, label: format!("tiny divisor: {} / {}{}{}{}", numerator, if negative { "-" } else { "" }, dtext, if dbl { "#" } else { "" }, if store { " (variable)" } else { "" }), ill_typed: false },
                            stdin: String::new(),
                            boundary: true,
                        });
                    }
                }
            }
        }
    }
    // DOUBLE -> SINGLE at the edge of the SINGLE range, through the storing routes
    let (smax, _) = float_extremes(Ty::Single);
    let smax_d = format!("{}#", smax);
    let beyond = format!("{:.1}#", f32::MAX as f64 * 2.0);
    let just_beyond = format!("{:.1}#", f32::MAX as f64 + 2f64.powi(103)); // MAX + one unit in the last place
    for (text, what) in [(smax_d.clone(), "MAX"), (beyond, "2*MAX"), (just_beyond, "MAX+ulp")] {
        for negative in [false, true] {
            for route in 0..4 {
                let mut b = B::new();
                let lit = if negative { Expr::Neg(Box::new(Expr::Num(text.clone()))) } else { Expr::Num(text.clone()) };
                let mut stmts = vec![b.assign(var("SRC#"), lit), b.assign(var("M!"), Expr::Num(smax.clone()))];
                let target: Expr = match route {
                    0 => var("T!"),
                    1 => Expr::Index("AR!".into(), vec![num(1)]),
                    2 => field_of(Ty::Single),
                    _ => var("T!"),
                };
                if route == 3 {
                    // FUNCTION result
                    stmts.push(b.assign(var("T!"), call("FRSINGLE!", vec![Expr::Paren(Box::new(var("SRC#")))])));
                } else {
                    stmts.push(b.assign(target.clone(), var("SRC#")));
                }
                stmts.push(b.print(vec![bin(BinOp::Eq, target.clone(), var("M!")), bin(BinOp::Eq, target, Expr::Neg(Box::new(var("M!"))))]));
                out.push(Snip06 {
                    snip: Snip { stmts, label: format!("DOUBLE {}{} -> SINGLE route{}", if negative { "-" } else { "" }, what, route), ill_typed: false },
                    stdin: String::new(),
                    boundary: true,
                });
            }
        }
    }
    out
}

// ---------------------------------------------------------------------------
// FOR with a step of another type than the counter: the counter only ever holds
// values of its own type. Steps are chosen so that converting the step once and
// converting every sum give the same sequence (1.25, 1.75, 2.25, -1.25; no ties).
// ---------------------------------------------------------------------------

pub fn for_steps() -> Vec<Snip06> {
    let mut out = vec![];
    let steps: Vec<(&str, bool)> = vec![("1.25", false), ("1.75", false), ("2.25", false), ("1.25#", false), ("1.75#", false), ("1.25", true), ("1.75#", true), ("2", false), ("70000", false)];
    for counter in Ty::NUMERIC {
        for (step, negative) in &steps {
            for form in 0..2 {
                if *step == "70000" && counter == Ty::Int {
                    // Overflow when the step is converted / added: covered below with the boundary starts
                }
                let mut b = B::new();
                let mut stmts = vec![];
                let step_lit = if *negative { Expr::Neg(Box::new(Expr::Num(step.to_string()))) } else { Expr::Num(step.to_string()) };
                let step_e = if form == 0 {
                    step_lit
                } else {
                    let ty = if step.ends_with('#') { Ty::Double } else if step.contains('.') { Ty::Single } else if *step == "70000" { Ty::Long } else { Ty::Int };
                    stmts.push(b.assign(tv("ST", ty), step_lit));
                    tv("ST", ty)
                };
                let k = tv("K", counter);
                let (from, to) = if *negative { (num(6), num(1)) } else if *step == "70000" { (num(1), num(100000)) } else { (num(1), num(6)) };
                if *step == "70000" && counter == Ty::Int {
                    continue;
                }
                let body = vec![b.print(vec![st("i"), k.clone()])];
                stmts.push(b.s(K::For { var: k.clone(), from, to, step: Some(step_e), body, next_var: false }));
                stmts.push(b.print(vec![st("after"), k]));
                out.push(Snip06 {
                    snip: Snip { stmts, label: format!("FOR {:?} counter STEP {}{} form{}", counter, if *negative { "-" } else { "" }, step, form), ill_typed: false },
                    stdin: String::new(),
                    boundary: false,
                });
            }
        }
        // the increment past the type's maximum with a fractional step
        if counter == Ty::Int || counter == Ty::Long {
            let (_, hi) = bounds(counter);
            for step in ["1.25", "1.75#", "2.25"] {
                let mut b = B::new();
                let k = tv("K", counter);
                let from = literal_of(hi - 2.0, if counter == Ty::Int { Ty::Int } else { Ty::Long }).unwrap();
                let to = literal_of(hi, if counter == Ty::Int { Ty::Int } else { Ty::Long }).unwrap();
                let body = vec![b.print(vec![st("i"), k.clone()])];
                let stmts = vec![
                    b.s(K::For { var: k.clone(), from, to, step: Some(Expr::Num(step.to_string())), body, next_var: false }),
                    b.print(vec![st("after"), k]),
                ];
                out.push(Snip06 {
                    snip: Snip { stmts, label: format!("FOR {:?} counter at MAX STEP {}", counter, step), ill_typed: false },
                    stdin: String::new(),
                    boundary: true,
                });
            }
        }
    }
    out
}


// ---------------------------------------------------------------------------
// Unary and logical operators on variables of every type stored into targets of every type; quotients that are
// exactly a power of two just beyond a whole-number type; FOR headers whose literal start / limit / step does not
// fit the counter.
// ---------------------------------------------------------------------------

pub fn unary_and_powers() -> Vec<Snip06> {
    let mut out = vec![];
    let push = |out: &mut Vec<Snip06>, stmts: Vec<Stmt>, label: String, boundary: bool| {
        out.push(Snip06 { snip: Snip { stmts, label, ill_typed: false }, stdin: String::new(), boundary });
    };
    // (a) NOT / unary minus / AND / OR of a variable of every numeric type, stored into every kind of target
    let values: [(&str, Ty); 12] = [
        ("0", Ty::Int), ("5", Ty::Int), ("-7", Ty::Int), ("32767", Ty::Int), ("70000", Ty::Long), ("-70000", Ty::Long), ("2.25", Ty::Single), ("-2.75", Ty::Single), ("100.25", Ty::Single), ("2.25#", Ty::Double),
        ("-1000.75#", Ty::Double), ("70000.25#", Ty::Double),
    ];
    for (text, _) in values {
        for src in Ty::NUMERIC {
            // the value must be denotable by the source type without conversion issues (R1: no ties; whole values for % and &)
            let whole = !text.contains('.');
            if matches!(src, Ty::Int | Ty::Long) && !whole {
                continue;
            }
            if src == Ty::Int && text.trim_start_matches('-').parse::<i64>().map(|v| v > 32767).unwrap_or(false) {
                continue;
            }
            let lit = || -> Expr {
                if let Some(rest) = text.strip_prefix('-') { Expr::Neg(Box::new(Expr::Num(rest.to_string()))) } else { Expr::Num(text.to_string()) }
            };
            for opk in 0..4 {
                for target in Ty::NUMERIC {
                    for route in 0..3 {
                        let mut b = B::new();
                        let x = tv("X", src);
                        let e = match opk {
                            0 => Expr::Not(Box::new(x.clone())),
                            1 => Expr::Neg(Box::new(x.clone())),
                            2 => bin(BinOp::And, x.clone(), num(6)),
                            _ => bin(BinOp::Or, x.clone(), num(1)),
                        };
                        let mut stmts = vec![b.assign(x.clone(), lit())];
                        let dst = match route {
                            0 => tv("T", target),
                            1 => Expr::Index(format!("AR{}", target.suffix()), vec![num(1)]),
                            _ => field_of(target),
                        };
                        stmts.push(b.assign(dst.clone(), e));
                        // the stored value is used in further arithmetic of the target's type
                        stmts.push(b.print(vec![dst.clone(), bin(BinOp::Mul, dst, num(3))]));
                        push(&mut out, stmts, format!("{} of a {:?} variable holding {} -> {:?} route{}", ["NOT", "unary minus", "AND 6", "OR 1"][opk], src, text, target, route), false);
                    }
                }
            }
        }
    }
    // (b) quotients that are exactly 2^15, 2^31 (and their negatives, which fit), computed in SINGLE and in DOUBLE
    for (sfx, ty) in [("", Ty::Single), ("#", Ty::Double)] {
        for (num_text, den_text, what) in [
            ("65536.0", "2.0", "2^15"), ("-65536.0", "2.0", "-2^15"), ("4294967296.0", "2.0", "2^31"), ("-4294967296.0", "2.0", "-2^31"), ("16384.0", ".5", "2^15"), ("1073741824.0", ".5", "2^31"),
            ("-1073741824.0", ".5", "-2^31"), ("131072.0", "4.0", "2^15"), ("65534.0", "2.0", "2^15 - 1"), ("4294967294.0", "2.0", "2^31 - 1 in DOUBLE, 2^31 in SINGLE"),
        ] {
            if ty == Ty::Single && num_text == "4294967294.0" {
                continue; // not exactly a SINGLE
            }
            for target in [Ty::Int, Ty::Long] {
                for form in 0..3 {
                    let mut b = B::new();
                    let n = Expr::Num(format!("{}{}", num_text.trim_start_matches('-'), sfx));
                    let n = if num_text.starts_with('-') { Expr::Neg(Box::new(n)) } else { n };
                    let d = Expr::Num(format!("{}{}", den_text, sfx));
                    let mut stmts = vec![];
                    let e = match form {
                        0 => bin(BinOp::Div, n, d),
                        1 => {
                            stmts.push(b.assign(tv("X", ty), n));
                            bin(BinOp::Div, tv("X", ty), d)
                        }
                        _ => {
                            stmts.push(b.assign(tv("X", ty), n));
                            stmts.push(b.assign(tv("Y", ty), d));
                            Expr::Paren(Box::new(bin(BinOp::Div, tv("X", ty), tv("Y", ty))))
                        }
                    };
                    let dst = if form == 1 { Expr::Index(format!("AR{}", target.suffix()), vec![num(2)]) } else { tv("T", target) };
                    stmts.push(b.assign(dst.clone(), e));
                    stmts.push(b.print(vec![dst]));
                    push(&mut out, stmts, format!("quotient {} ({}{} / {}{}) -> {:?} form{}", what, num_text, sfx, den_text, sfx, target, form), true);
                }
            }
        }
    }
    // (c) FOR headers whose literal start, limit or step does not fit the counter: Overflow before the body runs
    for (counter, big, neg_big) in [(Ty::Int, "40000", "32769"), (Ty::Int, "32768", "70000"), (Ty::Long, "2147483648", "3000000000"), (Ty::Int, "40000.5", "32768.25")] {
        for place in 0..3 {
            for negative in [false, true] {
                let mut b = B::new();
                let k = tv("K", counter);
                let lit = |t: &str, neg: bool| -> Expr { if neg { Expr::Neg(Box::new(Expr::Num(t.to_string()))) } else { Expr::Num(t.to_string()) } };
                let v = lit(if negative { neg_big } else { big }, negative);
                let (from, to, step) = match place {
                    0 => (num(1), num(3), Some(v)),
                    1 => (num(1), v, Some(num(if negative { -1 } else { 1 }))),
                    _ => (v, num(3), None),
                };
                let body = vec![b.print(vec![st("body"), k.clone()])];
                let stmts = vec![b.print(vec![st("before")]), b.s(K::For { var: k.clone(), from, to, step, body, next_var: false }), b.print(vec![st("after"), k])];
                push(&mut out, stmts, format!("FOR with a {:?} counter whose {} is {}{}", counter, ["STEP", "limit", "start"][place], if negative { "-" } else { "" }, if negative { neg_big } else { big }), true);
            }
        }
    }
    // (d) FOR headers whose start, limit or step has a fraction (no tie): each is converted to the counter's type
    // once, when the loop is entered (a limit of 1.75 is 2, of 3.25 is 3), with and without STEP, as a literal,
    // a CONST, in parentheses and in a variable of another type
    for counter in [Ty::Int, Ty::Long] {
        for (from, to, step) in [("1", "1.75", ""), ("1", "3.25", ""), ("1", "3.75", "1"), ("1.75", "4", ""), ("1", "4.25", "1.75"), ("4", "1.25", "-1"), ("4", "-.75", "-1.75"), ("-2.75", "-.75", "")] {
            for form in 0..4 {
                let mut b = B::new();
                let k = tv("K", counter);
                let mut stmts = vec![];
                let lit = |t: &str| -> Expr { if let Some(r) = t.strip_prefix('-') { Expr::Neg(Box::new(Expr::Num(r.to_string()))) } else { Expr::Num(t.to_string()) } };
                let mut operand = |b: &mut B, stmts: &mut Vec<Stmt>, t: &str, name: &str| -> Expr {
                    if !t.contains('.') {
                        return lit(t);
                    }
                    match form {
                        0 => lit(t),
                        1 => Expr::Paren(Box::new(lit(t))),
                        2 => {
                            stmts.push(b.assign(tv(name, Ty::Double), lit(t)));
                            tv(name, Ty::Double)
                        }
                        _ => {
                            stmts.push(b.assign(tv(name, Ty::Single), lit(t)));
                            bin(BinOp::Add, tv(name, Ty::Single), num(0))
                        }
                    }
                };
                let f = operand(&mut b, &mut stmts, from, "FA");
                let t = operand(&mut b, &mut stmts, to, "FB");
                let st_e = if step.is_empty() { None } else { Some(operand(&mut b, &mut stmts, step, "FC")) };
                let body = vec![b.print(vec![st("body"), k.clone()])];
                stmts.push(b.s(K::For { var: k.clone(), from: f, to: t, step: st_e, body, next_var: false }));
                stmts.push(b.print(vec![st("after"), k]));
                push(&mut out, stmts, format!("FOR with a {:?} counter from {} to {} step {} (fractions converted once at loop entry) form{}", counter, from, to, if step.is_empty() { "none" } else { step }, form), true);
            }
        }
    }
    // (e) FOR headers that mention the counter itself: start, limit and step are all evaluated before the counter
    // is set (`I = 5: FOR I = 1 TO I + 5` runs ten times)
    for counter in [Ty::Int, Ty::Single] {
        for shape in 0..5 {
            let mut b = B::new();
            let k = tv("K", counter);
            let mut stmts = vec![b.assign(k.clone(), num(5))];
            let (from, to, step, what): (Expr, Expr, Option<Expr>, &str) = match shape {
                0 => (num(1), bin(BinOp::Add, k.clone(), num(5)), None, "limit K + 5"),
                1 => (num(1), num(12), Some(k.clone()), "step K"),
                2 => (num(1), bin(BinOp::Mul, k.clone(), num(2)), Some(bin(BinOp::Sub, k.clone(), num(2))), "limit K * 2, step K - 2"),
                3 => (bin(BinOp::Sub, k.clone(), num(3)), bin(BinOp::Add, k.clone(), num(1)), None, "start K - 3, limit K + 1"),
                _ => (num(10), k.clone(), Some(Expr::Neg(Box::new(Expr::Paren(Box::new(bin(BinOp::Sub, k.clone(), num(3))))))), "start 10, limit K, step -(K - 3)"),
            };
            let body = vec![b.print(vec![st("body"), k.clone()])];
            stmts.push(b.s(K::For { var: k.clone(), from, to, step, body, next_var: false }));
            stmts.push(b.print(vec![st("after"), k]));
            push(&mut out, stmts, format!("FOR with a {:?} counter K = 5 whose header mentions K: {}", counter, what), true);
        }
    }
    out
}

// ---------------------------------------------------------------------------
// Conversions of two values that are closer together than the tolerance of the interpreter's comparisons
// (0.00001) but lie on different sides of a rounding tie or of a range limit, one right after the other.
// ---------------------------------------------------------------------------

pub fn close_pairs() -> Vec<Snip06> {
    let mut out = vec![];
    let eps = 2f64.powi(-20); // 9.5e-7, exactly representable next to the values below
    for target in [Ty::Int, Ty::Long] {
        let (lo, hi) = bounds(target);
        for centre in [2.5, -2.5, 0.5, 100.5, hi + 0.5, lo - 0.5, hi - 0.5] {
            for order in 0..2 {
                for src in [Ty::Double, Ty::Single] {
                    let (x, y) = if order == 0 { (centre - eps, centre + eps) } else { (centre + eps, centre - eps) };
                    let (Some(lx), Some(ly)) = (literal_of(x, src), literal_of(y, src)) else { continue };
                    for route in 0..3 {
                        let mut b = B::new();
                        let mut stmts = vec![];
                        match route {
                            0 => {
                                stmts.push(b.assign(tv("TA", target), lx.clone()));
                                stmts.push(b.assign(tv("TB", target), ly.clone()));
                                stmts.push(b.print(vec![tv("TA", target), tv("TB", target)]));
                            }
                            1 => {
                                // the same through typed variables
                                stmts.push(b.assign(tv("SX", src), lx.clone()));
                                stmts.push(b.assign(tv("SY", src), ly.clone()));
                                stmts.push(b.assign(tv("TA", target), tv("SX", src)));
                                stmts.push(b.assign(tv("TB", target), tv("SY", src)));
                                stmts.push(b.print(vec![tv("TA", target), tv("TB", target)]));
                            }
                            _ => {
                                // by-value parameters of two consecutive calls
                                stmts.push(b.s(K::Call(format!("PV{}", target.keyword()), vec![Expr::Paren(Box::new(lx.clone()))])));
                                stmts.push(b.s(K::Call(format!("PV{}", target.keyword()), vec![Expr::Paren(Box::new(ly.clone()))])));
                            }
                        }
                        out.push(Snip06 {
                            snip: Snip { stmts, label: format!("close pair around {} -> {:?} from {:?} order{} route{}", centre, target, src, order, route), ill_typed: false },
                            stdin: String::new(),
                            boundary: true,
                        });
                    }
                }
            }
        }
    }
    out
}
