//! C10: an independent precedence climber over operator chains, canonical tree
//! spelling, the enumeration of chains with unary / parenthesis variants, and the
//! expected kind and value of numeric literals.

#[derive(Clone, Copy, Debug, PartialEq, Eq, Hash)]
pub enum Op {
    Plus,
    Minus,
    Mul,
    Div,
    Mod,
    Lt,
    Le,
    Eq,
    Ge,
    Gt,
    Ne,
    And,
    Or,
}

pub const OPS: [Op; 13] = [
    Op::Plus,
    Op::Minus,
    Op::Mul,
    Op::Div,
    Op::Mod,
    Op::Lt,
    Op::Le,
    Op::Eq,
    Op::Ge,
    Op::Gt,
    Op::Ne,
    Op::And,
    Op::Or,
];

impl Op {
    pub fn text(self) -> &'static str {
        match self {
            Op::Plus => "+",
            Op::Minus => "-",
            Op::Mul => "*",
            Op::Div => "/",
            Op::Mod => "MOD",
            Op::Lt => "<",
            Op::Le => "<=",
            Op::Eq => "=",
            Op::Ge => ">=",
            Op::Gt => ">",
            Op::Ne => "<>",
            Op::And => "AND",
            Op::Or => "OR",
        }
    }

    /// Binding strength: higher binds tighter.
    /// unary minus (7) > * / (6) > MOD (5) > + - (4) > relational (3) > NOT (2) > AND (1) > OR (0)
    pub fn rank(self) -> u8 {
        match self {
            Op::Mul | Op::Div => 6,
            Op::Mod => 5,
            Op::Plus | Op::Minus => 4,
            Op::Lt | Op::Le | Op::Eq | Op::Ge | Op::Gt | Op::Ne => 3,
            Op::And => 1,
            Op::Or => 0,
        }
    }
}

#[derive(Clone, Debug, PartialEq, Eq, Hash)]
pub enum Tok {
    Operand(String),
    Bin(Op),
    Neg,
    Not,
    LParen,
    RParen,
}

pub fn spell(toks: &[Tok]) -> String {
    let mut s = String::new();
    for (i, t) in toks.iter().enumerate() {
        let piece = match t {
            Tok::Operand(n) => n.clone(),
            Tok::Bin(op) => op.text().to_string(),
            Tok::Neg => "-".to_string(),
            Tok::Not => "NOT".to_string(),
            Tok::LParen => "(".to_string(),
            Tok::RParen => ")".to_string(),
        };
        if i > 0 {
            let prev = &toks[i - 1];
            let glue = matches!(prev, Tok::LParen | Tok::Neg) || matches!(t, Tok::RParen);
            if !glue {
                s.push(' ');
            }
        }
        s.push_str(&piece);
    }
    s
}

/// The same tokens without a blank between an operator (keyword or symbol, unary or binary) and a parenthesis
/// next to it: `NOT(A)+B`, `A MOD(B)*C`, `(A)AND(B)`.
pub fn spell_tight(toks: &[Tok]) -> String {
    let mut s = String::new();
    for (i, t) in toks.iter().enumerate() {
        let piece = match t {
            Tok::Operand(n) => n.clone(),
            Tok::Bin(op) => op.text().to_string(),
            Tok::Neg => "-".to_string(),
            Tok::Not => "NOT".to_string(),
            Tok::LParen => "(".to_string(),
            Tok::RParen => ")".to_string(),
        };
        if i > 0 {
            let prev = &toks[i - 1];
            let glue = matches!(prev, Tok::LParen | Tok::Neg)
                || matches!(t, Tok::RParen)
                || (matches!(t, Tok::LParen) && matches!(prev, Tok::Bin(_) | Tok::Not))
                || (matches!(prev, Tok::RParen) && matches!(t, Tok::Bin(_)));
            if !glue {
                s.push(' ');
            }
        }
        s.push_str(&piece);
    }
    s
}

#[derive(Clone, Debug, PartialEq, Eq)]
pub enum Tree {
    Leaf(String),
    Bin(Op, Box<Tree>, Box<Tree>),
    Neg(Box<Tree>),
    Not(Box<Tree>),
    Paren(Box<Tree>),
}

impl Tree {
    /// Canonical spelling. Homogeneous AND chains and OR chains are flattened: they are
    /// the only operators for which grouping is unobservable for every operand value.
    pub fn canon(&self) -> String {
        match self {
            Tree::Leaf(n) => n.clone(),
            Tree::Neg(c) => format!("(-{})", c.canon()),
            Tree::Not(c) => format!("(NOT {})", c.canon()),
            Tree::Paren(c) => format!("[{}]", c.canon()),
            Tree::Bin(op, l, r) => {
                if *op == Op::And || *op == Op::Or {
                    let mut items = vec![];
                    self.flatten(*op, &mut items);
                    format!("{}({})", op.text(), items.join(", "))
                } else {
                    format!("({} {} {})", l.canon(), op.text(), r.canon())
                }
            }
        }
    }

    fn flatten(&self, op: Op, out: &mut Vec<String>) {
        match self {
            Tree::Bin(o, l, r) if *o == op => {
                l.flatten(op, out);
                r.flatten(op, out);
            }
            other => out.push(other.canon()),
        }
    }
}

/// The reference parser: precedence climbing, operators of equal rank group left to right.
pub struct Climber<'a> {
    toks: &'a [Tok],
    pos: usize,
}

impl<'a> Climber<'a> {
    pub fn parse(toks: &'a [Tok]) -> Option<Tree> {
        let mut c = Climber { toks, pos: 0 };
        let t = c.expr(0)?;
        if c.pos == toks.len() { Some(t) } else { None }
    }

    fn peek(&self) -> Option<&Tok> {
        self.toks.get(self.pos)
    }

    /// Parses an expression whose binary operators all have rank >= min_rank.
    fn expr(&mut self, min_rank: u8) -> Option<Tree> {
        let mut left = self.operand()?;
        while let Some(Tok::Bin(op)) = self.peek() {
            let op = *op;
            if op.rank() < min_rank {
                break;
            }
            self.pos += 1;
            let right = self.expr(op.rank() + 1)?;
            left = Tree::Bin(op, Box::new(left), Box::new(right));
        }
        Some(left)
    }

    fn operand(&mut self) -> Option<Tree> {
        match self.peek()?.clone() {
            Tok::Neg => {
                self.pos += 1;
                // unary minus binds tighter than every binary operator
                let child = self.operand()?;
                Some(Tree::Neg(Box::new(child)))
            }
            Tok::Not => {
                self.pos += 1;
                // NOT binds looser than the relational operators: its operand extends over them
                let child = self.expr(3)?;
                Some(Tree::Not(Box::new(child)))
            }
            Tok::LParen => {
                self.pos += 1;
                let inner = self.expr(0)?;
                if self.peek() != Some(&Tok::RParen) {
                    return None;
                }
                self.pos += 1;
                Some(Tree::Paren(Box::new(inner)))
            }
            Tok::Operand(n) => {
                self.pos += 1;
                Some(Tree::Leaf(n))
            }
            _ => None,
        }
    }
}

// ---------------------------------------------------------------------------
// Enumeration
// ---------------------------------------------------------------------------

const NAMES: [&str; 6] = ["A", "B", "C", "D", "E", "F"];

pub fn pow13(len: u32) -> u64 {
    13u64.pow(len)
}

/// The idx-th operator sequence of the given length.
pub fn op_sequence(len: u32, mut idx: u64) -> Vec<Op> {
    let mut ops = vec![Op::Plus; len as usize];
    for k in (0..len as usize).rev() {
        ops[k] = OPS[(idx % 13) as usize];
        idx /= 13;
    }
    ops
}

#[derive(Clone, Copy, Debug, PartialEq, Eq)]
pub enum Variants {
    /// just the chain
    Base,
    /// every assignment of {none, -, NOT} to every operand
    AllUnary,
    /// one unary operator at one operand
    OneUnary,
    /// one parenthesised contiguous sub-chain
    OneParen,
    /// one parenthesised operand or sub-chain, bare or directly after a unary operator, to be spelled tightly
    /// (no blank between an operator and a parenthesis next to it)
    Tight,
}

/// All token lists derived from one operator sequence under a variant scheme.
pub fn variants(ops: &[Op], scheme: Variants) -> Vec<Vec<Tok>> {
    let n = ops.len() + 1;
    let base = |unary: &dyn Fn(usize) -> Option<Tok>, paren: Option<(usize, usize)>| -> Vec<Tok> {
        let mut t = vec![];
        for i in 0..n {
            if let Some((a, _)) = paren
                && a == i
            {
                t.push(Tok::LParen);
            }
            if let Some(u) = unary(i) {
                t.push(u);
            }
            t.push(Tok::Operand(NAMES[i].to_string()));
            if let Some((_, b)) = paren
                && b == i
            {
                t.push(Tok::RParen);
            }
            if i < ops.len() {
                t.push(Tok::Bin(ops[i]));
            }
        }
        t
    };
    match scheme {
        Variants::Base => vec![base(&|_| None, None)],
        Variants::AllUnary => {
            let mut out = vec![];
            let total = 3u32.pow(n as u32);
            for code in 1..total {
                let pick = |i: usize| -> Option<Tok> {
                    match (code / 3u32.pow(i as u32)) % 3 {
                        1 => Some(Tok::Neg),
                        2 => Some(Tok::Not),
                        _ => None,
                    }
                };
                out.push(base(&pick, None));
            }
            out
        }
        Variants::OneUnary => {
            let mut out = vec![];
            for i in 0..n {
                for u in [Tok::Neg, Tok::Not] {
                    let u2 = u.clone();
                    out.push(base(&move |k| if k == i { Some(u2.clone()) } else { None }, None));
                }
            }
            out
        }
        Variants::OneParen => {
            let mut out = vec![];
            for a in 0..n {
                for b in (a + 1)..n {
                    out.push(base(&|_| None, Some((a, b))));
                }
            }
            out
        }
        Variants::Tight => {
            let mut out = vec![];
            for a in 0..n {
                for b in a..n {
                    for u in [None, Some(Tok::Neg), Some(Tok::Not)] {
                        let mut t = vec![];
                        for i in 0..n {
                            if i == a {
                                if let Some(u) = &u {
                                    t.push(u.clone());
                                }
                                t.push(Tok::LParen);
                            }
                            t.push(Tok::Operand(NAMES[i].to_string()));
                            if i == b {
                                t.push(Tok::RParen);
                            }
                            if i < ops.len() {
                                t.push(Tok::Bin(ops[i]));
                            }
                        }
                        out.push(t);
                    }
                }
            }
            out
        }
    }
}

// ---------------------------------------------------------------------------
// Literals
// ---------------------------------------------------------------------------

#[derive(Clone, Debug, PartialEq)]
pub enum Lit {
    Integer(i32),
    Long(i64),
    Single(f32),
    Double(f64),
    /// the parser must reject the literal (too many significant bits)
    Overflow,
}

impl Lit {
    pub fn describe(&self) -> String {
        match self {
            Lit::Integer(v) => format!("INTEGER {}", v),
            Lit::Long(v) => format!("LONG {}", v),
            Lit::Single(v) => format!("SINGLE {:?} (bits {:08x})", v, v.to_bits()),
            Lit::Double(v) => format!("DOUBLE {:?} (bits {:016x})", v, v.to_bits()),
            Lit::Overflow => "rejected (overflow)".to_string(),
        }
    }

    /// The literal's value negated, in the literal's own type, widened only
    /// when the literal is that type's minimum.
    pub fn negated(&self) -> Lit {
        match self {
            Lit::Integer(v) => {
                if *v == -32768 {
                    Lit::Long(32768)
                } else {
                    Lit::Integer(-v)
                }
            }
            Lit::Long(v) => {
                if *v == -2147483648 {
                    Lit::Double(2147483648.0)
                } else {
                    Lit::Long(-v)
                }
            }
            Lit::Single(v) => Lit::Single(-v),
            Lit::Double(v) => Lit::Double(-v),
            Lit::Overflow => Lit::Overflow,
        }
    }
}

/// Expected kind and value of an unsigned numeric literal, by the rules of the property:
/// decimal: INTEGER, LONG, else DOUBLE; &H/&O: 16- or 32-bit two's complement;
/// digits with a fraction: SINGLE, or DOUBLE with #.
pub fn expected_literal(text: &str) -> Option<Lit> {
    let up = text.to_ascii_uppercase();
    if let Some(digits) = up.strip_prefix("&H") {
        return radix_literal(digits, 16);
    }
    if let Some(digits) = up.strip_prefix("&O") {
        return radix_literal(digits, 8);
    }
    // a fraction beyond the largest finite value of its type has no value: it must be rejected
    if let Some(body) = up.strip_suffix('#') {
        return body.parse::<f64>().ok().map(|v| if v.is_finite() { Lit::Double(v) } else { Lit::Overflow });
    }
    if up.contains('.') {
        return up.parse::<f32>().ok().map(|v| if v.is_finite() { Lit::Single(v) } else { Lit::Overflow });
    }
    // whole decimal number
    let trimmed = up.trim_start_matches('0');
    if trimmed.len() > 40 {
        return None;
    }
    let v: u128 = if trimmed.is_empty() { 0 } else { trimmed.parse().ok()? };
    if v <= 32767 {
        Some(Lit::Integer(v as i32))
    } else if v <= 2147483647 {
        Some(Lit::Long(v as i64))
    } else {
        up.parse::<f64>().ok().map(Lit::Double)
    }
}

fn radix_literal(digits: &str, radix: u32) -> Option<Lit> {
    if digits.is_empty() {
        return None;
    }
    let mut v: u128 = 0;
    for c in digits.chars() {
        let d = c.to_digit(radix)? as u128;
        // more than 128 significant bits: certainly more than 32
        v = match v.checked_mul(radix as u128).and_then(|x| x.checked_add(d)) {
            Some(x) => x,
            None => return Some(Lit::Overflow),
        };
    }
    if v <= 0xFFFF {
        Some(Lit::Integer((v as u16) as i16 as i32))
    } else if v <= 0xFFFF_FFFF {
        Some(Lit::Long((v as u32) as i32 as i64))
    } else {
        Some(Lit::Overflow)
    }
}

#[cfg(test)]
mod tests {
    use super::*;

    fn t(s: &[Tok]) -> String {
        Climber::parse(s).unwrap().canon()
    }

    fn o(n: &str) -> Tok {
        Tok::Operand(n.to_string())
    }

    #[test]
    fn climber_basics() {
        assert_eq!(t(&[o("A"), Tok::Bin(Op::Mul), o("B"), Tok::Bin(Op::Mod), o("C")]), "((A * B) MOD C)");
        assert_eq!(t(&[o("A"), Tok::Bin(Op::Lt), o("B"), Tok::Bin(Op::Lt), o("C")]), "((A < B) < C)");
        assert_eq!(t(&[Tok::Not, o("A"), Tok::Bin(Op::Plus), o("B")]), "(NOT (A + B))");
        assert_eq!(t(&[Tok::Not, o("A"), Tok::Bin(Op::And), o("B")]), "AND((NOT A), B)");
        assert_eq!(t(&[Tok::Neg, o("A"), Tok::Bin(Op::Mul), o("B")]), "((-A) * B)");
        assert_eq!(t(&[o("A"), Tok::Bin(Op::Plus), Tok::Not, o("B"), Tok::Bin(Op::Plus), o("C")]), "(A + (NOT (B + C)))");
        assert_eq!(t(&[o("A"), Tok::Bin(Op::Minus), o("B"), Tok::Bin(Op::Minus), o("C")]), "((A - B) - C)");
    }

    #[test]
    fn literals() {
        assert_eq!(expected_literal("32767"), Some(Lit::Integer(32767)));
        assert_eq!(expected_literal("32768"), Some(Lit::Long(32768)));
        assert_eq!(expected_literal("4294967296"), Some(Lit::Double(4294967296.0)));
        assert_eq!(expected_literal("&HFFFF"), Some(Lit::Integer(-1)));
        assert_eq!(expected_literal("&H10000"), Some(Lit::Long(65536)));
        assert_eq!(expected_literal("&HFFFFFFFF"), Some(Lit::Long(-1)));
        assert_eq!(expected_literal("&O177777"), Some(Lit::Integer(-1)));
        assert_eq!(expected_literal("&H100000000"), Some(Lit::Overflow));
        assert_eq!(Lit::Integer(-32768).negated(), Lit::Long(32768));
    }
}
