//! Repo-independent part of the verification harness: outcome types, evidence /
//! known-finding / replay plumbing, generator AST, printers, reference
//! semantics and models. Nothing in this crate depends on /repo.

pub mod outcome;
pub mod report;
pub mod pcmodel;
pub mod btok;
pub mod slots;
pub mod prec;

pub use outcome::*;
pub use report::*;
