//! Repo-independent part of the verification harness: outcome types, evidence /
//! known-finding / replay plumbing, generator AST, printers, reference
//! semantics and models. Nothing in this crate depends on /repo.

pub mod outcome;
pub mod report;
pub mod pcmodel;
pub mod btok;
pub mod slots;
pub mod prec;
pub mod gast;
pub mod gprint;
pub mod rvalue;
pub mod refsem;
pub mod judge;
pub mod gen01;
pub mod rewrite;
pub mod gen03;
pub mod gen04;
pub mod gen05;
pub mod gen11;
pub mod pmodel;
pub mod fmodel;
pub mod gen06;
pub mod gen17;
pub mod srcheck;
pub mod disturb;

pub use outcome::*;
pub use report::*;
