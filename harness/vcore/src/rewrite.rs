//! C02: meaning-preserving rewrites of `Prog` values (correct by construction).
//! Each rule can be applied at one chosen site or at all sites.

use crate::gast::*;

#[derive(Clone, Copy, Debug, PartialEq, Eq, Hash)]
pub enum Rule {
    ForToWhile,
    WhileToDoWhile,
    DoUntilToDoWhileNot,
    SelectToIfChain,
    SingleLineIfToBlock,
    ForAddStep1,
    WrapLoopBodyInIfTrue,
}

pub const RULES: [Rule; 7] = [
    Rule::ForToWhile,
    Rule::WhileToDoWhile,
    Rule::DoUntilToDoWhileNot,
    Rule::SelectToIfChain,
    Rule::SingleLineIfToBlock,
    Rule::ForAddStep1,
    Rule::WrapLoopBodyInIfTrue,
];

struct Rw {
    rule: Rule,
    /// apply only at this site index (in traversal order); None = everywhere
    only: Option<usize>,
    seen: usize,
    applied: Vec<Id>,
    b: B,
}

fn is_comparison(e: &Expr) -> bool {
    matches!(e, Expr::Bin(op, _, _) if op.is_relational())
}

/// An expression built from numeric literals, numeric variables, arithmetic and parentheses only.
fn numeric_only(e: &Expr) -> bool {
    match e {
        Expr::Num(_) => true,
        Expr::Var(n) => !n.ends_with('$'),
        Expr::Bin(op, a, b) => !op.is_relational() && numeric_only(a) && numeric_only(b),
        Expr::Neg(a) | Expr::Paren(a) => numeric_only(a),
        _ => false,
    }
}

fn suffix_of(name: &str) -> char {
    name.chars().last().filter(|c| Ty::from_suffix(*c).is_some()).unwrap_or('!')
}

impl Rw {
    fn applies(&self, s: &Stmt) -> bool {
        match (&s.k, self.rule) {
            (K::For { .. }, Rule::ForToWhile) => true,
            (K::While(..), Rule::WhileToDoWhile) => true,
            (K::Do(DoKind::UntilTop, c, _), Rule::DoUntilToDoWhileNot) => is_comparison(c),
            (K::Do(DoKind::UntilBottom, c, _), Rule::DoUntilToDoWhileNot) => is_comparison(c),
            (K::Select { .. }, Rule::SelectToIfChain) => true,
            (K::If { single_line: true, .. }, Rule::SingleLineIfToBlock) => true,
            (K::For { step: None, .. }, Rule::ForAddStep1) => true,
            (K::For { .. } | K::While(..) | K::Do(..), Rule::WrapLoopBodyInIfTrue) => true,
            _ => false,
        }
    }

    fn block(&mut self, stmts: &[Stmt]) -> Vec<Stmt> {
        let mut out = vec![];
        for s in stmts {
            out.extend(self.stmt(s));
        }
        out
    }

    fn stmt(&mut self, s: &Stmt) -> Vec<Stmt> {
        // decide first (pre-order numbering of sites), then rewrite the children
        let here = if self.applies(s) {
            let idx = self.seen;
            self.seen += 1;
            self.only.map(|o| o == idx).unwrap_or(true)
        } else {
            false
        };
        let k = match &s.k {
            K::If { arms, els, single_line } => K::If {
                arms: arms.iter().map(|(c, b)| (c.clone(), self.block(b))).collect(),
                els: els.as_ref().map(|e| self.block(e)),
                single_line: *single_line,
            },
            K::Select { subject, cases, els } => K::Select {
                subject: subject.clone(),
                cases: cases.iter().map(|(t, b)| (t.clone(), self.block(b))).collect(),
                els: els.as_ref().map(|e| self.block(e)),
            },
            K::For { var, from, to, step, body, next_var } => K::For {
                var: var.clone(),
                from: from.clone(),
                to: to.clone(),
                step: step.clone(),
                body: self.block(body),
                next_var: *next_var,
            },
            K::While(c, b) => K::While(c.clone(), self.block(b)),
            K::Do(kind, c, b) => K::Do(*kind, c.clone(), self.block(b)),
            other => other.clone(),
        };
        let s2 = Stmt { id: s.id, k };
        if !here {
            return vec![s2];
        }
        self.applied.push(s.id);
        self.apply(s2)
    }

    fn apply(&mut self, s: Stmt) -> Vec<Stmt> {
        let id = s.id;
        match (s.k, self.rule) {
            (K::For { var, from, to, step, body, .. }, Rule::ForToWhile) => {
                let name = match &var {
                    Expr::Var(n) => n.clone(),
                    _ => "X!".to_string(),
                };
                let sfx = suffix_of(&name);
                let lim = Expr::Var(format!("ZL{}{}", id, sfx));
                let stp = Expr::Var(format!("ZS{}{}", id, sfx));
                let mut out = vec![
                    self.b.assign(var.clone(), from),
                    self.b.assign(lim.clone(), to),
                    self.b.assign(stp.clone(), step.unwrap_or(num(1))),
                ];
                let up = bin(BinOp::And, bin(BinOp::Gt, stp.clone(), num(0)), bin(BinOp::Le, var.clone(), lim.clone()));
                let down = bin(BinOp::And, bin(BinOp::Lt, stp.clone(), num(0)), bin(BinOp::Ge, var.clone(), lim.clone()));
                let cond = bin(BinOp::Or, Expr::Paren(Box::new(up)), Expr::Paren(Box::new(down)));
                let mut body = body;
                body.push(self.b.assign(var.clone(), bin(BinOp::Add, var.clone(), stp.clone())));
                out.push(self.b.s(K::While(cond, body)));
                out
            }
            (K::While(c, body), Rule::WhileToDoWhile) => vec![self.b.s(K::Do(DoKind::WhileTop, c, body))],
            (K::Do(kind, c, body), Rule::DoUntilToDoWhileNot) => {
                let nk = if kind == DoKind::UntilTop { DoKind::WhileTop } else { DoKind::WhileBottom };
                vec![self.b.s(K::Do(nk, Expr::Not(Box::new(Expr::Paren(Box::new(c)))), body))]
            }
            (K::Select { subject, cases, els }, Rule::SelectToIfChain) => {
                // the temporary has the subject's own type when the subject is a variable; any other numeric subject is
                // held in a DOUBLE (every INTEGER, LONG and SINGLE value is a DOUBLE value, so the comparisons are the same)
                let t = match &subject {
                    Expr::Var(n) => Expr::Var(format!("ZC{}{}", id, suffix_of(n))),
                    Expr::Bin(..) | Expr::Paren(_) | Expr::Neg(_) if numeric_only(&subject) => Expr::Var(format!("ZC{}#", id)),
                    _ => Expr::Var(format!("ZC{}%", id)),
                };
                let mut out = vec![self.b.assign(t.clone(), subject)];
                let mut arms = vec![];
                for (tests, body) in cases {
                    let mut cond: Option<Expr> = None;
                    for c in tests {
                        let one = match c {
                            CaseExpr::Simple(e) => bin(BinOp::Eq, t.clone(), e),
                            CaseExpr::Is(op, e) => bin(op, t.clone(), e),
                            CaseExpr::Range(lo, hi) => Expr::Paren(Box::new(bin(
                                BinOp::And,
                                bin(BinOp::Ge, t.clone(), lo),
                                bin(BinOp::Le, t.clone(), hi),
                            ))),
                        };
                        cond = Some(match cond {
                            None => one,
                            Some(prev) => bin(BinOp::Or, prev, one),
                        });
                    }
                    arms.push((cond.unwrap_or(num(0)), body));
                }
                if arms.is_empty() {
                    out.extend(els.unwrap_or_default());
                } else {
                    out.push(self.b.s(K::If { arms, els, single_line: false }));
                }
                out
            }
            (K::If { arms, els, .. }, Rule::SingleLineIfToBlock) => {
                vec![self.b.s(K::If { arms, els, single_line: false })]
            }
            (K::For { var, from, to, body, next_var, .. }, Rule::ForAddStep1) => {
                vec![self.b.s(K::For { var, from, to, step: Some(num(1)), body, next_var })]
            }
            (k, Rule::WrapLoopBodyInIfTrue) => {
                let wrap = |b: &mut B, body: Vec<Stmt>| vec![b.s(K::If { arms: vec![(num(-1), body)], els: None, single_line: false })];
                let k2 = match k {
                    K::For { var, from, to, step, body, next_var } => {
                        let body = wrap(&mut self.b, body);
                        K::For { var, from, to, step, body, next_var }
                    }
                    K::While(c, body) => {
                        let body = wrap(&mut self.b, body);
                        K::While(c, body)
                    }
                    K::Do(kind, c, body) => {
                        let body = wrap(&mut self.b, body);
                        K::Do(kind, c, body)
                    }
                    other => other,
                };
                vec![Stmt { id, k: k2 }]
            }
            (k, _) => vec![Stmt { id, k }],
        }
    }
}

/// Applies `rule` at site `only` (or everywhere). Returns the rewritten program and the ids of
/// the statements that were rewritten. The SELECT rule assumes an INTEGER-valued subject.
pub fn rewrite(prog: &Prog, rule: Rule, only: Option<usize>) -> (Prog, Vec<Id>) {
    let mut rw = Rw {
        rule,
        only,
        seen: 0,
        applied: vec![],
        b: B::new(),
    };
    // fresh ids for new statements must not collide with the old ones
    let mut max_id = 0;
    prog.walk(&mut |s| max_id = max_id.max(s.id));
    for s in &prog.subs {
        max_id = max_id.max(s.id);
    }
    for _ in 0..=max_id {
        rw.b.id();
    }
    let mut out = prog.clone();
    out.main = rw.block(&prog.main);
    for (i, s) in prog.subs.iter().enumerate() {
        out.subs[i].body = rw.block(&s.body);
    }
    (out, rw.applied)
}

pub fn site_count(prog: &Prog, rule: Rule) -> usize {
    rewrite(prog, rule, None).1.len()
}
