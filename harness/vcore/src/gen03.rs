//! C03 generators: argument shapes (by reference / by value, conversions, write-back),
//! recursion with fresh locals, and call histories of STATIC and ordinary subprograms.

use crate::gast::*;

#[derive(Clone, Copy, Debug, PartialEq, Eq)]
pub enum PTy {
    Scalar(Ty),
    Rec,
    Array,
}

pub const PTYS: [PTy; 7] = [
    PTy::Scalar(Ty::Int),
    PTy::Scalar(Ty::Long),
    PTy::Scalar(Ty::Single),
    PTy::Scalar(Ty::Double),
    PTy::Scalar(Ty::Str),
    PTy::Rec,
    PTy::Array,
];

#[derive(Clone, Copy, Debug, PartialEq, Eq)]
pub enum ArgShape {
    Variable,
    ArrayElement,
    RecordField,
    FixedStringVariable,
    Literal,
    OtherTypeLiteral,
    Arithmetic,
    ParenVariable,
    OtherTypeVariable,
    FunctionCall,
    NestedByRefCall,
}

pub const ARG_SHAPES: [ArgShape; 11] = [
    ArgShape::Variable,
    ArgShape::ArrayElement,
    ArgShape::RecordField,
    ArgShape::FixedStringVariable,
    ArgShape::Literal,
    ArgShape::OtherTypeLiteral,
    ArgShape::Arithmetic,
    ArgShape::ParenVariable,
    ArgShape::OtherTypeVariable,
    ArgShape::FunctionCall,
    ArgShape::NestedByRefCall,
];

#[derive(Clone, Copy, Debug, PartialEq, Eq)]
pub enum Action {
    Leave,
    Assign,
    AssignTwice,
    PassOn,
}

pub const ACTIONS: [Action; 4] = [Action::Leave, Action::Assign, Action::AssignTwice, Action::PassOn];

fn val(t: Ty, k: i64) -> Expr {
    match t {
        Ty::Str => st(&format!("s{}", k)),
        Ty::Single => Expr::Num(format!("{}.5", k)),
        Ty::Double => Expr::Num(format!("{}.25#", k)),
        Ty::Long => num(100000 + k),
        Ty::Int => num(k),
    }
}

fn tv(base: &str, t: Ty) -> Expr {
    var(&format!("{}{}", base, t.suffix()))
}

pub struct ArgCase {
    pub prog: Prog,
    pub label: String,
    /// the checker must reject the program (by-reference argument of another type)
    pub expect_reject: bool,
}

/// One program for (parameter type, argument shape, callee action, callee kind).
pub fn arg_program(p: PTy, a: ArgShape, act: Action, function: bool) -> Option<ArgCase> {
    let mut b = B::new();
    let types = vec![TypeDef {
        name: "Rec".into(),
        fields: vec![
            ("FI".into(), DeclTy::Scalar(Ty::Int)),
            ("FL".into(), DeclTy::Scalar(Ty::Long)),
            ("FS".into(), DeclTy::Scalar(Ty::Single)),
            ("FD".into(), DeclTy::Scalar(Ty::Double)),
            ("FT".into(), DeclTy::FixStr(3)),
        ],
    }];
    let mut main: Vec<Stmt> = vec![];
    let mut expect_reject = false;
    let dim = |b: &mut B, name: &str, ty: Option<DeclTy>, dims: Vec<(Option<Expr>, Expr)>| {
        b.s(K::Dim { shared: false, redim: false, vars: vec![DimVar { name: name.into(), ty, dims }] })
    };
    main.push(dim(&mut b, "R", Some(DeclTy::Rec("Rec".into())), vec![]));
    main.push(dim(&mut b, "H", Some(DeclTy::FixStr(3)), vec![]));
    let field = |t: Ty| -> Expr {
        Expr::Field(
            Box::new(var("R")),
            match t {
                Ty::Int => "FI",
                Ty::Long => "FL",
                Ty::Single => "FS",
                Ty::Double => "FD",
                Ty::Str => "FT",
            }
            .into(),
        )
    };
    // what is observable after the call
    let mut watch: Vec<Expr> = vec![];
    let (param, arg): (Param, Expr) = match p {
        PTy::Scalar(t) => {
            let arr = format!("AR{}", t.suffix());
            main.push(dim(&mut b, &arr, None, vec![(None, num(2))]));
            main.push(b.assign(tv("V", t), val(t, 1)));
            main.push(b.assign(Expr::Index(arr.clone(), vec![num(1)]), val(t, 1)));
            main.push(b.assign(Expr::Index(arr.clone(), vec![num(2)]), val(t, 7)));
            if t == Ty::Str {
                main.push(b.assign(field(t), st("abc")));
                main.push(b.assign(var("H"), st("abc")));
            } else {
                main.push(b.assign(field(t), val(t, 1)));
            }
            watch.extend([tv("V", t), Expr::Index(arr.clone(), vec![num(1)]), Expr::Index(arr.clone(), vec![num(2)]), field(t)]);
            if t == Ty::Str {
                watch.push(var("H"));
            }
            let other = if t == Ty::Int { Ty::Long } else { Ty::Int };
            let arg = match a {
                ArgShape::Variable => tv("V", t),
                ArgShape::ArrayElement => Expr::Index(arr, vec![num(1)]),
                ArgShape::RecordField => field(t),
                ArgShape::FixedStringVariable => {
                    if t != Ty::Str {
                        return None;
                    }
                    var("H")
                }
                ArgShape::Literal => val(t, 2),
                ArgShape::OtherTypeLiteral => {
                    if t == Ty::Str {
                        return None;
                    }
                    // converted to the parameter's type (no exact tie)
                    if t == Ty::Int || t == Ty::Long { Expr::Num("2.25".into()) } else { num(2) }
                }
                ArgShape::Arithmetic => {
                    if t == Ty::Str {
                        bin(BinOp::Add, tv("V", t), st("x"))
                    } else {
                        bin(BinOp::Add, tv("V", t), num(1))
                    }
                }
                ArgShape::ParenVariable => Expr::Paren(Box::new(tv("V", t))),
                ArgShape::OtherTypeVariable => {
                    if t == Ty::Str {
                        return None;
                    }
                    main.push(b.assign(tv("W", other), num(3)));
                    expect_reject = true;
                    tv("W", other)
                }
                ArgShape::FunctionCall => call(&format!("Give{}", t.suffix()), vec![]),
                ArgShape::NestedByRefCall => call(&format!("Bump{}", t.suffix()), vec![tv("V", t)]),
            };
            (Param { name: format!("P{}", t.suffix()), ty: None, is_array: false }, arg)
        }
        PTy::Rec => {
            if a != ArgShape::Variable {
                return None;
            }
            main.push(b.assign(field(Ty::Int), num(1)));
            watch.push(field(Ty::Int));
            (Param { name: "P".into(), ty: Some(DeclTy::Rec("Rec".into())), is_array: false }, var("R"))
        }
        PTy::Array => {
            if a != ArgShape::Variable {
                return None;
            }
            main.push(dim(&mut b, "AR%", None, vec![(None, num(2))]));
            main.push(b.assign(Expr::Index("AR%".into(), vec![num(1)]), num(1)));
            watch.push(Expr::Index("AR%".into(), vec![num(1)]));
            (Param { name: "P%".into(), ty: None, is_array: true }, Expr::Index("AR%".into(), vec![]))
        }
    };
    // the callee
    let pname = param.name.clone();
    let (pvar, new1, new2): (Expr, Expr, Expr) = match p {
        PTy::Scalar(t) => (var(&pname), val(t, 4), val(t, 5)),
        PTy::Rec => (Expr::Field(Box::new(var("P")), "FI".into()), num(4), num(5)),
        PTy::Array => (Expr::Index("P%".into(), vec![num(1)]), num(4), num(5)),
    };
    let mut body = vec![b.print(vec![st("in"), pvar.clone()])];
    let mut subs: Vec<SubDef> = vec![];
    match act {
        Action::Leave => {}
        Action::Assign => body.push(b.assign(pvar.clone(), new1)),
        Action::AssignTwice => {
            body.push(b.assign(pvar.clone(), new1));
            body.push(b.assign(pvar.clone(), new2));
        }
        Action::PassOn => {
            let passed = match p {
                PTy::Scalar(_) | PTy::Rec => var(&pname),
                PTy::Array => Expr::Index("P%".into(), vec![]),
            };
            body.push(b.s(K::Call("Second".into(), vec![passed])));
            let (qparam, qvar) = match p {
                PTy::Scalar(t) => (Param { name: format!("Q{}", t.suffix()), ty: None, is_array: false }, var(&format!("Q{}", t.suffix()))),
                PTy::Rec => (Param { name: "Q".into(), ty: Some(DeclTy::Rec("Rec".into())), is_array: false }, Expr::Field(Box::new(var("Q")), "FI".into())),
                PTy::Array => (Param { name: "Q%".into(), ty: None, is_array: true }, Expr::Index("Q%".into(), vec![num(1)])),
            };
            let sbody = vec![b.assign(qvar, new2)];
            let id = b.id();
            subs.push(SubDef { id, name: "Second".into(), is_function: false, params: vec![qparam], body: sbody, is_static: false });
        }
    }
    body.push(b.print(vec![st("out"), pvar]));
    let id = b.id();
    if function {
        body.push(b.assign(var("Callee%"), num(9)));
        subs.insert(0, SubDef { id, name: "Callee%".into(), is_function: true, params: vec![param], body, is_static: false });
        main.push(b.assign(var("X%"), call("Callee%", vec![arg])));
        watch.push(var("X%"));
    } else {
        subs.insert(0, SubDef { id, name: "Callee".into(), is_function: false, params: vec![param], body, is_static: false });
        main.push(b.s(K::Call("Callee".into(), vec![arg])));
    }
    // helper functions used by some argument shapes
    if let PTy::Scalar(t) = p {
        if a == ArgShape::FunctionCall {
            let name = format!("Give{}", t.suffix());
            let fbody = vec![b.assign(var(&name), val(t, 6))];
            let id = b.id();
            subs.push(SubDef { id, name, is_function: true, params: vec![], body: fbody, is_static: false });
        }
        if a == ArgShape::NestedByRefCall {
            // a function that changes its by-reference parameter and returns a value
            let name = format!("Bump{}", t.suffix());
            let q = format!("B{}", t.suffix());
            let fbody = vec![b.assign(var(&q), val(t, 8)), b.assign(var(&name), val(t, 6))];
            let id = b.id();
            subs.push(SubDef { id, name, is_function: true, params: vec![Param { name: q, ty: None, is_array: false }], body: fbody, is_static: false });
        }
    }
    for w in watch {
        main.push(b.print(vec![st("["), w, st("]")]));
    }
    Some(ArgCase {
        prog: Prog { types, main, subs, declare: true, ..Default::default() },
        label: format!("{:?} {:?} {:?} {}", p, a, act, if function { "FUNCTION" } else { "SUB" }),
        expect_reject,
    })
}

pub fn arg_programs() -> Vec<ArgCase> {
    let mut out = vec![];
    for p in PTYS {
        for a in ARG_SHAPES {
            for act in ACTIONS {
                for function in [false, true] {
                    if let Some(c) = arg_program(p, a, act, function) {
                        out.push(c);
                    }
                }
            }
        }
    }
    out.extend(extra_programs());
    out
}

/// The same variable passed twice, and recursion with a local per activation.
fn extra_programs() -> Vec<ArgCase> {
    let mut out = vec![];
    for (first, second) in [(4, 5), (5, 4)] {
        let mut b = B::new();
        let body = vec![b.assign(var("A%"), num(first)), b.assign(var("B%"), num(second)), b.print(vec![var("A%"), var("B%")])];
        let id = b.id();
        let sub = SubDef {
            id,
            name: "Two".into(),
            is_function: false,
            params: vec![Param { name: "A%".into(), ty: None, is_array: false }, Param { name: "B%".into(), ty: None, is_array: false }],
            body,
            is_static: false,
        };
        let main = vec![
            b.assign(var("X%"), num(1)),
            b.assign(var("Y%"), num(2)),
            b.s(K::Call("Two".into(), vec![var("X%"), var("Y%")])),
            b.print(vec![var("X%"), var("Y%")]),
            // the same variable for both parameters: written back left to right
            b.s(K::Call("Two".into(), vec![var("X%"), var("X%")])),
            b.print(vec![var("X%")]),
        ];
        out.push(ArgCase { prog: Prog { main, subs: vec![sub], declare: true, ..Default::default() }, label: format!("same variable twice {} {}", first, second), expect_reject: false });
    }
    // the element an array-element argument denotes is fixed when the call is made: its subscripts are
    // evaluated once, whatever the callee does to the variables in them
    for variant in 0..11 {
        let mut b = B::new();
        let p_int = |n: &str| Param { name: n.into(), ty: None, is_array: false };
        let mut subs = vec![];
        // SUB SetBoth (N%, V%): changes the subscript variable and the element
        let body = vec![b.assign(var("N%"), num(2)), b.assign(var("V%"), num(99))];
        let id = b.id();
        subs.push(SubDef { id, name: "SetBoth".into(), is_function: false, params: vec![p_int("N%"), p_int("V%")], body, is_static: false });
        // SUB Bump (V%)
        let body = vec![b.assign(var("V%"), bin(BinOp::Add, var("V%"), num(1)))];
        let id = b.id();
        subs.push(SubDef { id, name: "Bump".into(), is_function: false, params: vec![p_int("V%")], body, is_static: false });
        // FUNCTION NextIx%: a subscript with a side effect (counts its calls in the SHARED CNT%)
        let body = vec![b.assign(var("CNT%"), bin(BinOp::Add, var("CNT%"), num(1))), b.assign(var("NextIx%"), var("CNT%"))];
        let id = b.id();
        subs.push(SubDef { id, name: "NextIx%".into(), is_function: true, params: vec![], body, is_static: false });
        // FUNCTION Same% (K%) and FUNCTION Twice% (V%)
        let body = vec![b.assign(var("Same%"), var("K%"))];
        let id = b.id();
        subs.push(SubDef { id, name: "Same%".into(), is_function: true, params: vec![p_int("K%")], body, is_static: false });
        let body = vec![b.assign(var("V%"), bin(BinOp::Add, var("V%"), num(100))), b.assign(var("Twice%"), bin(BinOp::Mul, var("V%"), num(2)))];
        let id = b.id();
        subs.push(SubDef { id, name: "Twice%".into(), is_function: true, params: vec![p_int("V%")], body, is_static: false });
        let el = |e: Expr| Expr::Index("A%".into(), vec![e]);
        let mut main = vec![
            b.s(K::Dim { shared: true, redim: false, vars: vec![DimVar { name: "CNT%".into(), ty: None, dims: vec![] }] }),
            b.s(K::Dim { shared: false, redim: false, vars: vec![DimVar { name: "A%".into(), ty: None, dims: vec![(Some(num(1)), num(3))] }] }),
            b.assign(el(num(1)), num(10)),
            b.assign(el(num(2)), num(20)),
            b.assign(el(num(3)), num(30)),
            b.assign(var("I%"), num(1)),
        ];
        let label = match variant {
            0 => {
                main.push(b.s(K::Call("SetBoth".into(), vec![var("I%"), el(var("I%"))])));
                "the callee changes the subscript variable through another parameter"
            }
            1 => {
                main.push(b.s(K::Call("Bump".into(), vec![el(call("NextIx%", vec![]))])));
                "the subscript is a FUNCTION with a side effect"
            }
            2 => {
                main.push(b.print(vec![call("Twice%", vec![el(call("Same%", vec![num(2)]))])]));
                "a FUNCTION call inside the subscript of the argument of a FUNCTION"
            }
            3 => {
                main.push(b.assign(var("B%"), num(1)));
                main.push(b.s(K::Call("SetBoth".into(), vec![el(call("Same%", vec![var("I%")])), var("B%")])));
                main.push(b.print(vec![var("B%")]));
                "a FUNCTION call inside the subscript, next to another by-reference argument"
            }
            4 => {
                main.push(b.s(K::Call("SetBoth".into(), vec![var("I%"), el(bin(BinOp::Add, var("I%"), num(1)))])));
                "the subscript is an expression of a variable the callee changes"
            }
            5 => {
                main.push(b.s(K::Read(vec![el(call("NextIx%", vec![]))])));
                main.push(b.s(K::Data(vec![DataItem::Num("77".into())])));
                "READ into an element whose subscript is a FUNCTION with a side effect"
            }
            6 => {
                // a later argument of the same call is a FUNCTION that changes the subscript variable through its own parameter
                main.push(b.assign(var("B%"), num(0)));
                main.push(b.s(K::Call("SetBoth".into(), vec![el(var("I%")), bin(BinOp::Add, call("Twice%", vec![var("I%")]), num(0))])));
                "a later argument is a FUNCTION that changes the subscript variable by reference"
            }
            10 => {
                // arguments are evaluated left to right: an EARLIER argument calls a FUNCTION that changes the subscript variable
                let body = vec![b.assign(var("K%"), bin(BinOp::Add, var("K%"), num(1))), b.assign(var("Jump%"), num(7))];
                let id = b.id();
                subs.push(SubDef { id, name: "Jump%".into(), is_function: true, params: vec![p_int("K%")], body, is_static: false });
                main.push(b.s(K::Call("SetBoth".into(), vec![bin(BinOp::Add, call("Jump%", vec![var("I%")]), num(0)), el(var("I%"))])));
                "an earlier argument is a FUNCTION that changes the subscript variable by reference"
            }
            8 => {
                // the targets of READ are assigned one after the other: the second one's subscript is the value just read
                main.push(b.s(K::Read(vec![var("I%"), el(var("I%"))])));
                main.push(b.s(K::Data(vec![DataItem::Num("3".into()), DataItem::Num("77".into())])));
                "READ I%, A%(I%): the subscript is the value just read"
            }
            9 => {
                main.push(b.s(K::Open { name: st("in.txt"), mode: FileMode::Output, handle: 1, len: None }));
                main.push(b.s(K::Print { dev: Dev::File(1), using: None, items: vec![PItem::E(st("2,55,3,66"))] }));
                main.push(b.s(K::Close(vec![1])));
                main.push(b.s(K::Open { name: st("in.txt"), mode: FileMode::Input, handle: 1, len: None }));
                main.push(b.s(K::Input(Some(1), vec![var("I%"), el(var("I%")), var("I%"), el(var("I%"))])));
                main.push(b.s(K::Close(vec![1])));
                "INPUT #1, I%, A%(I%), I%, A%(I%): each subscript is the value just read"
            }
            _ => {
                // the callee fails, the module-level handler changes the subscript variable and resumes in the callee
                main.insert(0, b.s(K::OnErrorGoto("Fix".into())));
                main.push(b.s(K::Call("Trip".into(), vec![el(var("I%"))])));
                "an error inside the callee whose handler changes the subscript variable"
            }
        };
        if variant == 7 {
            // SUB Trip (V%): V% = 5: V% = V% \ 0 -> handler: I% = 3: RESUME NEXT; V% = V% + 1
            let body = vec![b.assign(var("V%"), num(5)), b.assign(var("Z%"), bin(BinOp::Div, num(1), var("ZERO%"))), b.assign(var("V%"), bin(BinOp::Add, var("V%"), num(1)))];
            let id = b.id();
            subs.push(SubDef { id, name: "Trip".into(), is_function: false, params: vec![p_int("V%")], body, is_static: false });
        }
        main.push(b.print(vec![var("I%"), var("CNT%"), el(num(1)), el(num(2)), el(num(3))]));
        if variant == 7 {
            main.push(b.s(K::End));
            main.push(b.s(K::Label("Fix".into())));
            main.push(b.assign(var("I%"), num(3)));
            main.push(b.s(K::ResumeNext));
        }
        out.push(ArgCase { prog: Prog { main, subs, declare: true, ..Default::default() }, label: format!("array element by reference: {}", label), expect_reject: false });
    }
    out.extend(multi_element_programs());
    out.extend(forwarding_programs());
    // an activation that is abandoned by a trapped error (RESUME label) after it has assigned the FUNCTION's name:
    // the next call that assigns nothing returns 0 / "" (STATIC or not, numeric or string result); with RESUME NEXT
    // the activation goes on and returns what it assigned
    for is_static in [false, true] {
        for string_result in [false, true] {
            for leave in 0..2 {
                let mut b = B::new();
                let f = if string_result { "Res$" } else { "Res%" };
                let val = |n: i64| if string_result { st(&format!("v{}", n)) } else { num(n) };
                let fail = b.assign(var("Z%"), bin(BinOp::Div, num(1), var("ZERO%")));
                let set1 = b.assign(var(f), val(103));
                let set2 = b.assign(var(f), val(7));
                let body = vec![
                    b.assign(var("N%"), bin(BinOp::Add, var("N%"), num(1))),
                    b.s(K::If { arms: vec![(bin(BinOp::Eq, var("M%"), num(1)), vec![set1, fail])], els: None, single_line: false }),
                    b.s(K::If { arms: vec![(bin(BinOp::Eq, var("M%"), num(2)), vec![set2])], els: None, single_line: false }),
                    b.print(vec![st("in"), var("M%"), var("N%")]),
                ];
                let id = b.id();
                let sub = SubDef { id, name: f.into(), is_function: true, params: vec![Param { name: "M%".into(), ty: None, is_array: false }], body, is_static };
                let show = |b: &mut B, m: i64| b.print(vec![st("["), call(f, vec![num(m)]), st("]")]);
                let mut main = vec![b.s(K::OnErrorGoto("Trap".into()))];
                main.push(show(&mut b, 0));
                main.push(show(&mut b, 1));
                main.push(b.s(K::Label("Cont".into())));
                main.push(show(&mut b, 0));
                main.push(show(&mut b, 2));
                main.push(show(&mut b, 0));
                main.push(show(&mut b, 1));
                main.push(b.print(vec![st("not reached when the handler leaves by RESUME label")]));
                main.push(b.s(K::End));
                main.push(b.s(K::Label("Trap".into())));
                main.push(b.print(vec![st("trap"), builtin("ERR", vec![])]));
                main.push(b.assign(var("T%"), bin(BinOp::Add, var("T%"), num(1))));
                if leave == 0 {
                    // the second failure ends the program through the handler's END
                    let stop = b.s(K::End);
                    main.push(b.s(K::If { arms: vec![(bin(BinOp::Ge, var("T%"), num(2)), vec![stop])], els: None, single_line: false }));
                    main.push(b.s(K::ResumeLabel("Cont".into())));
                } else {
                    main.push(b.s(K::ResumeNext));
                }
                out.push(ArgCase {
                    prog: Prog { main, subs: vec![sub], declare: true, ..Default::default() },
                    label: format!("a FUNCTION activation abandoned by a trapped error after it assigned its name: {}{} result, handler leaves by {}", if is_static { "STATIC, " } else { "" }, if string_result { "string" } else { "numeric" }, ["RESUME label", "RESUME NEXT"][leave]),
                    expect_reject: false,
                });
            }
        }
    }
    // a STATIC subprogram that calls itself: its variables are shared by the activations, its parameters are not
    for variant in 0..7 {
        for depth in 1..=3 {
            let mut b = B::new();
            let p_int = |n: &str| Param { name: n.into(), ty: None, is_array: false };
            let mut main = vec![];
            let mut subs = vec![];
            let label = match variant {
                0 => {
                    // SUB Rec (N%) STATIC: C% = C% + 1: IF N% > 0 THEN Rec N% - 1: PRINT N%; C%
                    let call_self = b.s(K::Call("Rec".into(), vec![bin(BinOp::Sub, var("N%"), num(1))]));
                    let body = vec![
                        b.assign(var("C%"), bin(BinOp::Add, var("C%"), num(1))),
                        b.s(K::If { arms: vec![(bin(BinOp::Gt, var("N%"), num(0)), vec![call_self])], els: None, single_line: false }),
                        b.print(vec![var("N%"), var("C%")]),
                    ];
                    let id = b.id();
                    subs.push(SubDef { id, name: "Rec".into(), is_function: false, params: vec![p_int("N%")], body, is_static: true });
                    main.push(b.s(K::Call("Rec".into(), vec![num(depth)])));
                    main.push(b.s(K::Call("Rec".into(), vec![num(0)])));
                    "by-value argument"
                }
                1 => {
                    // the argument is a variable of the STATIC sub itself, passed by reference
                    let call_self = b.s(K::Call("Rec".into(), vec![var("M%")]));
                    let inner = vec![b.assign(var("M%"), bin(BinOp::Sub, var("N%"), num(1))), call_self, b.print(vec![st("back"), var("N%"), var("M%")])];
                    let body = vec![
                        b.s(K::If { arms: vec![(bin(BinOp::Gt, var("N%"), num(0)), inner)], els: None, single_line: false }),
                        b.assign(var("N%"), bin(BinOp::Add, var("N%"), num(10))),
                    ];
                    let id = b.id();
                    subs.push(SubDef { id, name: "Rec".into(), is_function: false, params: vec![p_int("N%")], body, is_static: true });
                    main.push(b.assign(var("X%"), num(depth)));
                    main.push(b.s(K::Call("Rec".into(), vec![var("X%")])));
                    main.push(b.print(vec![var("X%")]));
                    "by-reference argument that is a variable of the subprogram"
                }
                3 | 4 => {
                    // two self-calls per activation: SUB Walk (N%) STATIC: C% = C% + 1: IF N% > 0 THEN Walk N% - 1: Walk N% - 1
                    // (variant 4: the second call passes a variable of the subprogram by reference) : PRINT N%; C%
                    let c1 = b.s(K::Call("Walk".into(), vec![bin(BinOp::Sub, var("N%"), num(1))]));
                    let mut inner = vec![c1];
                    if variant == 3 {
                        inner.push(b.s(K::Call("Walk".into(), vec![bin(BinOp::Sub, var("N%"), num(1))])));
                    } else {
                        inner.push(b.assign(var("M%"), bin(BinOp::Sub, var("N%"), num(1))));
                        inner.push(b.s(K::Call("Walk".into(), vec![var("M%")])));
                        inner.push(b.print(vec![st("m"), var("M%")]));
                    }
                    let body = vec![
                        b.assign(var("C%"), bin(BinOp::Add, var("C%"), num(1))),
                        b.s(K::If { arms: vec![(bin(BinOp::Gt, var("N%"), num(0)), inner)], els: None, single_line: false }),
                        b.print(vec![var("N%"), var("C%")]),
                    ];
                    let id = b.id();
                    subs.push(SubDef { id, name: "Walk".into(), is_function: false, params: vec![p_int("N%")], body, is_static: true });
                    main.push(b.assign(var("X%"), num(depth)));
                    main.push(b.s(K::Call("Walk".into(), vec![var("X%")])));
                    main.push(b.print(vec![var("X%")]));
                    main.push(b.s(K::Call("Walk".into(), vec![num(1)])));
                    if variant == 3 { "two self-calls per activation, by-reference argument from the module" } else { "two self-calls per activation, the second with a variable of the subprogram by reference" }
                }
                5 => {
                    // a STATIC FUNCTION that assigns its name only on some calls: the other calls return 0
                    let then = vec![b.assign(var("Pick%"), num(42))];
                    let body = vec![b.assign(var("Calls%"), bin(BinOp::Add, var("Calls%"), num(1))), b.s(K::If { arms: vec![(bin(BinOp::Eq, var("N%"), num(depth)), then)], els: None, single_line: false })];
                    let id = b.id();
                    subs.push(SubDef { id, name: "Pick%".into(), is_function: true, params: vec![p_int("N%")], body, is_static: true });
                    main.push(b.print(vec![call("Pick%", vec![num(depth)])]));
                    main.push(b.print(vec![call("Pick%", vec![num(0)])]));
                    main.push(b.print(vec![call("Pick%", vec![num(depth)]), call("Pick%", vec![num(9)])]));
                    "FUNCTION that assigns its name only on some calls"
                }
                6 => {
                    // a STATIC FUNCTION that assigns its name BEFORE it calls itself: the inner result must not replace it
                    let inner = vec![b.assign(var("D%"), call("Own%", vec![bin(BinOp::Sub, var("N%"), num(1))])), b.print(vec![st("inner"), var("D%")])];
                    let body = vec![b.assign(var("Own%"), bin(BinOp::Mul, var("N%"), num(10))), b.s(K::If { arms: vec![(bin(BinOp::Gt, var("N%"), num(0)), inner)], els: None, single_line: false })];
                    let id = b.id();
                    subs.push(SubDef { id, name: "Own%".into(), is_function: true, params: vec![p_int("N%")], body, is_static: true });
                    main.push(b.print(vec![call("Own%", vec![num(depth)])]));
                    main.push(b.print(vec![call("Own%", vec![num(0)])]));
                    "FUNCTION that assigns its name before it calls itself"
                }
                _ => {
                    // FUNCTION Fact& (N%) STATIC: the parameter is used after the recursive call returned
                    let then = vec![b.assign(var("Fact&"), num(1))];
                    let els = vec![b.assign(var("T&"), call("Fact&", vec![bin(BinOp::Sub, var("N%"), num(1))])), b.assign(var("Fact&"), bin(BinOp::Mul, var("T&"), var("N%")))];
                    let body = vec![
                        b.assign(var("Calls%"), bin(BinOp::Add, var("Calls%"), num(1))),
                        b.s(K::If { arms: vec![(bin(BinOp::Le, var("N%"), num(1)), then)], els: Some(els), single_line: false }),
                        b.print(vec![var("N%"), var("Calls%")]),
                    ];
                    let id = b.id();
                    subs.push(SubDef { id, name: "Fact&".into(), is_function: true, params: vec![p_int("N%")], body, is_static: true });
                    main.push(b.print(vec![call("Fact&", vec![num(depth + 1)])]));
                    main.push(b.print(vec![call("Fact&", vec![num(2)])]));
                    "FUNCTION using its parameter after the recursive call"
                }
            };
            out.push(ArgCase { prog: Prog { main, subs, declare: true, ..Default::default() }, label: format!("STATIC subprogram calling itself, depth {}: {}", depth, label), expect_reject: false });
        }
    }
    out.extend(wide_and_deep_programs());
    for depth in 0..=3 {
        let mut b = B::new();
        // FUNCTION Sum%(N%): a local per activation must survive the recursive call
        let then = vec![b.assign(var("Sum%"), num(0))];
        let els = vec![
            b.assign(var("L%"), bin(BinOp::Mul, var("N%"), num(10))),
            b.assign(var("T%"), call("Sum%", vec![bin(BinOp::Sub, var("N%"), num(1))])),
            b.print(vec![st("back"), var("N%"), var("L%")]),
            b.assign(var("Sum%"), bin(BinOp::Add, var("T%"), var("L%"))),
        ];
        let body = vec![b.print(vec![st("enter"), var("N%"), var("L%")]), b.s(K::If { arms: vec![(bin(BinOp::Le, var("N%"), num(0)), then)], els: Some(els), single_line: false })];
        let id = b.id();
        let f = SubDef { id, name: "Sum%".into(), is_function: true, params: vec![Param { name: "N%".into(), ty: None, is_array: false }], body, is_static: false };
        let main = vec![b.assign(var("L%"), num(99)), b.print(vec![call("Sum%", vec![num(depth)])]), b.print(vec![var("L%")])];
        out.push(ArgCase { prog: Prog { main, subs: vec![f], declare: true, ..Default::default() }, label: format!("recursion depth {}", depth), expect_reject: false });
    }
    out
}

/// Several array elements (and fields of array elements) by reference in ONE call, with variable subscripts.
/// A by-reference parameter that the callee only hands on to another subprogram (the inner one changes it): the change
/// reaches the outermost caller whatever the kinds of the two subprograms and wherever the inner call stands (a
/// statement, an expression — once or twice —, a condition, a PRINT item, three levels deep). And a call with an
/// array element by reference whose later argument is a FUNCTION call that takes another element by reference.
pub fn forwarding_programs() -> Vec<ArgCase> {
    let mut out = vec![];
    let p_int = |n: &str| Param { name: n.into(), ty: None, is_array: false };
    for variant in 0..10 {
        for holder in 0..3 {
            let mut b = B::new();
            let mut subs = vec![];
            // FUNCTION NextId% (C%): C% = C% + 1: NextId% = C%
            let body = vec![b.assign(var("C%"), bin(BinOp::Add, var("C%"), num(1))), b.assign(var("NextId%"), var("C%"))];
            let id = b.id();
            subs.push(SubDef { id, name: "NextId%".into(), is_function: true, params: vec![p_int("C%")], body, is_static: false });
            // SUB Bump (C%): C% = C% + 1
            let body = vec![b.assign(var("C%"), bin(BinOp::Add, var("C%"), num(1)))];
            let id = b.id();
            subs.push(SubDef { id, name: "Bump".into(), is_function: false, params: vec![p_int("C%")], body, is_static: false });
            let next = || call("NextId%", vec![var("C%")]);
            let (outer_is_function, body, label): (bool, Vec<Stmt>, &str) = match variant {
                0 => (false, vec![b.s(K::Call("Bump".into(), vec![var("C%")])), b.assign(var("R%"), var("C%"))], "SUB hands it to a SUB"),
                1 => (false, vec![b.assign(var("R%"), next())], "SUB hands it to a FUNCTION in an expression"),
                2 => (false, vec![b.assign(var("R%"), bin(BinOp::Add, bin(BinOp::Mul, next(), num(100)), next()))], "SUB hands it to a FUNCTION twice in one expression"),
                3 => (true, vec![b.s(K::Call("Bump".into(), vec![var("C%")])), b.assign(var("Outer%"), var("C%"))], "FUNCTION hands it to a SUB"),
                4 => (true, vec![b.assign(var("Outer%"), next())], "FUNCTION hands it to a FUNCTION in an expression"),
                5 => (true, vec![b.assign(var("Outer%"), bin(BinOp::Add, bin(BinOp::Mul, next(), num(100)), next()))], "FUNCTION hands it to a FUNCTION twice in one expression"),
                6 => {
                    let then = vec![b.assign(var("Outer%"), num(1))];
                    (true, vec![b.s(K::If { arms: vec![(bin(BinOp::Gt, next(), num(0)), then)], els: None, single_line: false })], "FUNCTION hands it to a FUNCTION in a condition")
                }
                7 => (true, vec![b.print(vec![st("in"), next()]), b.assign(var("Outer%"), num(2))], "FUNCTION hands it to a FUNCTION in a PRINT item"),
                8 => {
                    // three levels: Outer% -> Via% -> NextId%
                    let mbody = vec![b.assign(var("Via%"), bin(BinOp::Add, next(), num(0)))];
                    let id = b.id();
                    subs.push(SubDef { id, name: "Via%".into(), is_function: true, params: vec![p_int("C%")], body: mbody, is_static: false });
                    (true, vec![b.assign(var("Outer%"), bin(BinOp::Sub, call("Via%", vec![var("C%")]), num(0)))], "FUNCTION -> FUNCTION -> FUNCTION")
                }
                _ => {
                    // the FUNCTION never names its parameter outside the inner call, and the call is an argument of a SUB
                    let sbody = vec![b.print(vec![st("show"), var("V%")])];
                    let id = b.id();
                    subs.push(SubDef { id, name: "Show".into(), is_function: false, params: vec![p_int("V%")], body: sbody, is_static: false });
                    (true, vec![b.s(K::Call("Show".into(), vec![bin(BinOp::Add, next(), num(0))])), b.assign(var("Outer%"), num(3))], "FUNCTION hands it to a FUNCTION inside the argument of a SUB")
                }
            };
            let id = b.id();
            if outer_is_function {
                subs.push(SubDef { id, name: "Outer%".into(), is_function: true, params: vec![p_int("C%")], body, is_static: false });
            } else {
                subs.push(SubDef { id, name: "Outer".into(), is_function: false, params: vec![p_int("C%"), p_int("R%")], body, is_static: false });
            }
            // the caller's variable: a plain variable, an array element with a variable subscript, a record field
            let mut main = vec![];
            let mut types = vec![];
            let cnt: Expr = match holder {
                0 => var("Counter%"),
                1 => {
                    main.push(b.s(K::Dim { shared: false, redim: false, vars: vec![DimVar { name: "CA%".into(), ty: None, dims: vec![(Some(num(1)), num(3))] }] }));
                    main.push(b.assign(var("IX%"), num(2)));
                    Expr::Index("CA%".into(), vec![var("IX%")])
                }
                _ => {
                    types.push(TypeDef { name: "Holder".into(), fields: vec![("N".into(), DeclTy::Scalar(Ty::Int)), ("M".into(), DeclTy::Scalar(Ty::Int))] });
                    main.push(b.s(K::Dim { shared: false, redim: false, vars: vec![DimVar { name: "H".into(), ty: Some(DeclTy::Rec("Holder".into())), dims: vec![] }] }));
                    Expr::Field(Box::new(var("H")), "M".into())
                }
            };
            main.push(b.assign(cnt.clone(), num(100)));
            for _ in 0..2 {
                if outer_is_function {
                    main.push(b.assign(var("K%"), call("Outer%", vec![cnt.clone()])));
                } else {
                    main.push(b.s(K::Call("Outer".into(), vec![cnt.clone(), var("K%")])));
                }
                main.push(b.print(vec![var("K%"), cnt.clone()]));
            }
            // and once more inside an expression of the caller
            if outer_is_function {
                main.push(b.print(vec![bin(BinOp::Add, call("Outer%", vec![cnt.clone()]), call("NextId%", vec![cnt.clone()])), cnt.clone()]));
            }
            out.push(ArgCase { prog: Prog { types, main, subs, declare: true, ..Default::default() }, label: format!("a by-reference parameter handed on: {} / caller's variable {}", label, ["a plain variable", "an array element", "a record field"][holder]), expect_reject: false });
        }
    }
    // SUB Add (T%, Amt%): T% = T% + Amt%;  FUNCTION Take% (S%): Take% = S%: S% = 0;  FUNCTION Sum% (X%, Y%): Sum% = X% + Y%: X% = -X%
    for (i, j) in [(1i64, 3i64), (3, 2), (2, 2), (1, 1)] {
        for shape in 0..5 {
            let mut b = B::new();
            let mut subs = vec![];
            let body = vec![b.assign(var("T%"), bin(BinOp::Add, var("T%"), var("Amt%")))];
            let id = b.id();
            subs.push(SubDef { id, name: "Add".into(), is_function: false, params: vec![p_int("T%"), p_int("Amt%")], body, is_static: false });
            let body = vec![b.assign(var("Take%"), var("S%")), b.assign(var("S%"), num(0))];
            let id = b.id();
            subs.push(SubDef { id, name: "Take%".into(), is_function: true, params: vec![p_int("S%")], body, is_static: false });
            let body = vec![b.assign(var("Sum%"), bin(BinOp::Add, var("X%"), var("Y%"))), b.assign(var("X%"), Expr::Neg(Box::new(var("X%"))))];
            let id = b.id();
            subs.push(SubDef { id, name: "Sum%".into(), is_function: true, params: vec![p_int("X%"), p_int("Y%")], body, is_static: false });
            let mut main = vec![
                b.s(K::Dim { shared: false, redim: false, vars: vec![DimVar { name: "A%".into(), ty: None, dims: vec![(Some(num(1)), num(3))] }, DimVar { name: "B%".into(), ty: None, dims: vec![(Some(num(1)), num(3))] }, DimVar { name: "M%".into(), ty: None, dims: vec![(Some(num(1)), num(3)), (Some(num(1)), num(3))] }] }),
            ];
            for k in 1..=3 {
                main.push(b.assign(Expr::Index("A%".into(), vec![num(k)]), num(k)));
                main.push(b.assign(Expr::Index("B%".into(), vec![num(k)]), num(10 * k)));
                main.push(b.assign(Expr::Index("M%".into(), vec![num(k), num(4 - k)]), num(100 * k)));
            }
            main.push(b.assign(var("I%"), num(i)));
            main.push(b.assign(var("J%"), num(j)));
            let a = |e: Expr| Expr::Index("A%".into(), vec![e]);
            let bb = |e: Expr| Expr::Index("B%".into(), vec![e]);
            let label = match shape {
                0 => {
                    main.push(b.s(K::Call("Add".into(), vec![a(var("I%")), call("Take%", vec![bb(var("J%"))])])));
                    "Add A%(I%), Take%(B%(J%))"
                }
                1 => {
                    main.push(b.s(K::Call("Add".into(), vec![a(var("I%")), call("Take%", vec![a(var("J%"))])])));
                    "Add A%(I%), Take%(A%(J%))"
                }
                2 => {
                    main.push(b.print(vec![call("Sum%", vec![a(var("I%")), call("Take%", vec![bb(var("J%"))])])]));
                    "PRINT Sum%(A%(I%), Take%(B%(J%)))"
                }
                3 => {
                    main.push(b.s(K::Call("Add".into(), vec![Expr::Index("M%".into(), vec![var("I%"), bin(BinOp::Sub, num(4), var("I%"))]), call("Take%", vec![Expr::Index("M%".into(), vec![var("J%"), bin(BinOp::Sub, num(4), var("J%"))])])])));
                    "Add M%(I%, 4 - I%), Take%(M%(J%, 4 - J%))"
                }
                _ => {
                    main.push(b.s(K::Call("Add".into(), vec![a(var("I%")), call("Sum%", vec![bb(var("J%")), call("Take%", vec![a(var("J%"))])])])));
                    "Add A%(I%), Sum%(B%(J%), Take%(A%(J%)))"
                }
            };
            let mut items = vec![];
            for k in 1..=3 {
                items.push(a(num(k)));
            }
            for k in 1..=3 {
                items.push(bb(num(k)));
            }
            for k in 1..=3 {
                items.push(Expr::Index("M%".into(), vec![num(k), num(4 - k)]));
            }
            main.push(b.print(items));
            out.push(ArgCase { prog: Prog { main, subs, declare: true, ..Default::default() }, label: format!("an element by reference and a FUNCTION call with another element in a later argument: {} with I% = {}, J% = {}", label, i, j), expect_reject: false });
        }
    }
    out
}

pub fn multi_element_programs() -> Vec<ArgCase> {
    let mut out = vec![];
    for variant in 0..6 {
        let mut b = B::new();
        let p_int = |n: &str| Param { name: n.into(), ty: None, is_array: false };
        // SUB Exchange (P%, Q%): T% = P%: P% = Q%: Q% = T%      SUB Three (P%, Q%, R%): P% = P% + 100: Q% = Q% + 200: R% = R% + 300
        let body = vec![b.assign(var("T%"), var("P%")), b.assign(var("P%"), var("Q%")), b.assign(var("Q%"), var("T%"))];
        let id = b.id();
        let exchange = SubDef { id, name: "Exchange".into(), is_function: false, params: vec![p_int("P%"), p_int("Q%")], body, is_static: false };
        let body = vec![
            b.assign(var("P%"), bin(BinOp::Add, var("P%"), num(100))),
            b.assign(var("Q%"), bin(BinOp::Add, var("Q%"), num(200))),
            b.assign(var("R%"), bin(BinOp::Add, var("R%"), num(300))),
        ];
        let id = b.id();
        let three = SubDef { id, name: "Three".into(), is_function: false, params: vec![p_int("P%"), p_int("Q%"), p_int("R%")], body, is_static: false };
        let types = vec![TypeDef { name: "Pt".into(), fields: vec![("N".into(), DeclTy::Scalar(Ty::Int)), ("M".into(), DeclTy::Scalar(Ty::Int))] }];
        let el = |e: Expr| Expr::Index("A%".into(), vec![e]);
        let el2 = |e: Expr, f: Expr| Expr::Index("G%".into(), vec![e, f]);
        let fld = |e: Expr, name: &str| Expr::Field(Box::new(Expr::Index("R".into(), vec![e])), name.into());
        let mut main = vec![
            b.s(K::Dim { shared: false, redim: false, vars: vec![DimVar { name: "A%".into(), ty: None, dims: vec![(Some(num(1)), num(4))] }] }),
            b.s(K::Dim { shared: false, redim: false, vars: vec![DimVar { name: "G%".into(), ty: None, dims: vec![(Some(num(1)), num(2)), (Some(num(1)), num(2))] }] }),
            b.s(K::Dim { shared: false, redim: false, vars: vec![DimVar { name: "R".into(), ty: Some(DeclTy::Rec("Pt".into())), dims: vec![(Some(num(1)), num(3))] }] }),
        ];
        for i in 1..=4 {
            main.push(b.assign(el(num(i)), num(i * 10)));
        }
        for i in 1..=2 {
            for j in 1..=2 {
                main.push(b.assign(el2(num(i), num(j)), num(i * 10 + j)));
            }
        }
        for i in 1..=3 {
            main.push(b.assign(fld(num(i), "N"), num(i)));
            main.push(b.assign(fld(num(i), "M"), num(i + 5)));
        }
        main.push(b.assign(var("I%"), num(1)));
        main.push(b.assign(var("J%"), num(3)));
        main.push(b.assign(var("K%"), num(2)));
        let label = match variant {
            0 => {
                main.push(b.s(K::Call("Exchange".into(), vec![el(var("I%")), el(var("J%"))])));
                "two elements of one array with variable subscripts"
            }
            1 => {
                main.push(b.s(K::Call("Three".into(), vec![el(var("J%")), el(var("I%")), el(var("K%"))])));
                "three elements of one array with variable subscripts"
            }
            2 => {
                main.push(b.s(K::Call("Exchange".into(), vec![fld(var("I%"), "N"), fld(var("J%"), "N")])));
                "the same field of two elements of an array of records"
            }
            3 => {
                main.push(b.s(K::Call("Exchange".into(), vec![el2(var("I%"), var("K%")), el2(var("K%"), var("I%"))])));
                "two elements of a matrix with transposed variable subscripts"
            }
            4 => {
                main.push(b.s(K::Call("Three".into(), vec![el(bin(BinOp::Add, var("I%"), num(1))), fld(var("K%"), "M"), el2(var("K%"), var("K%"))])));
                "an element, a field of a record element and a matrix element"
            }
            _ => {
                main.push(b.s(K::Call("Exchange".into(), vec![el(var("I%")), el(num(4))])));
                main.push(b.s(K::Call("Exchange".into(), vec![el(var("K%")), el(var("K%"))])));
                "a variable and a literal subscript; the same element twice"
            }
        };
        main.push(b.print((1..=4).map(|i| el(num(i))).collect()));
        main.push(b.print(vec![el2(num(1), num(1)), el2(num(1), num(2)), el2(num(2), num(1)), el2(num(2), num(2))]));
        main.push(b.print((1..=3).flat_map(|i| [fld(num(i), "N"), fld(num(i), "M")]).collect()));
        out.push(ArgCase { prog: Prog { types, main, subs: vec![exchange, three], declare: true, ..Default::default() }, label: format!("several array elements by reference in one call: {}", label), expect_reject: false });
    }
    out
}

/// Size ladders: subprograms with many parameters (every mix of by-reference and by-value arguments
/// for up to 4 parameters, characteristic mixes up to 16), call chains and recursion far deeper than the
/// shape enumeration goes, many distinct subprograms, many locals per activation.
fn wide_and_deep_programs() -> Vec<ArgCase> {
    const TYS: [Ty; 5] = [Ty::Int, Ty::Long, Ty::Single, Ty::Double, Ty::Str];
    let mut out = vec![];
    let bump = |t: Ty, i: usize, e: Expr| -> Expr {
        match t {
            Ty::Str => bin(BinOp::Add, e, st(&format!("+{}", i))),
            _ => bin(BinOp::Add, e, num(i as i64 + 1)),
        }
    };
    for n in [1usize, 2, 3, 4, 5, 6, 7, 8, 9, 10, 12, 16] {
        // masks: bit i set = argument i is a variable (by reference), clear = an expression (by value)
        let mut masks: Vec<u32> = vec![];
        if n <= 4 {
            masks.extend(0..(1u32 << n));
        } else {
            let all = (1u32 << n) - 1;
            masks.push(all);
            masks.push(0);
            masks.push(0x5555_5555 & all);
            masks.push(0xAAAA_AAAA & all);
            for i in 0..n {
                masks.push(all & !(1 << i));
            }
            masks.push(1 << (n - 1));
            masks.push(1);
        }
        for function in [false, true] {
            for (mi, mask) in masks.iter().enumerate() {
                // FUNCTION forms only for a few masks of the wide signatures
                if function && n > 4 && mi > 3 {
                    continue;
                }
                let mut b = B::new();
                let ty = |i: usize| TYS[(i + n) % 5];
                let params: Vec<Param> = (0..n).map(|i| Param { name: format!("P{}{}", i, ty(i).suffix()), ty: None, is_array: false }).collect();
                let mut body = vec![];
                // the callee prints what it received, then changes every parameter, last to first
                body.push(b.print((0..n).map(|i| tv(&format!("P{}", i), ty(i))).collect()));
                for i in (0..n).rev() {
                    let pv = tv(&format!("P{}", i), ty(i));
                    body.push(b.assign(pv.clone(), bump(ty(i), i, pv)));
                }
                let name = if function { "Wide%" } else { "Wide" };
                if function {
                    body.push(b.assign(var("Wide%"), num(n as i64)));
                }
                let id = b.id();
                let sub = SubDef { id, name: name.into(), is_function: function, params, body, is_static: false };
                let mut main = vec![];
                for i in 0..n {
                    main.push(b.assign(tv(&format!("V{}", i), ty(i)), val(ty(i), i as i64 + 1)));
                }
                let args: Vec<Expr> = (0..n)
                    .map(|i| {
                        let v = tv(&format!("V{}", i), ty(i));
                        if mask & (1 << i) != 0 {
                            v
                        } else {
                            match ty(i) {
                                Ty::Str => bin(BinOp::Add, v, st("")),
                                _ => Expr::Paren(Box::new(v)),
                            }
                        }
                    })
                    .collect();
                if function {
                    main.push(b.print(vec![call(name, args.clone())]));
                } else {
                    main.push(b.s(K::Call(name.into(), args.clone())));
                }
                main.push(b.print((0..n).map(|i| tv(&format!("V{}", i), ty(i))).collect()));
                // a second call: the write-backs of the first must not linger
                if function {
                    main.push(b.print(vec![call(name, args)]));
                } else {
                    main.push(b.s(K::Call(name.into(), args)));
                }
                main.push(b.print((0..n).map(|i| tv(&format!("V{}", i), ty(i))).collect()));
                out.push(ArgCase {
                    prog: Prog { main, subs: vec![sub], declare: true, ..Default::default() },
                    label: format!("{} parameters, by-reference mask {:#b}, {}", n, mask, if function { "FUNCTION" } else { "SUB" }),
                    expect_reject: false,
                });
            }
        }
    }
    // call chains: Chain0 calls Chain1 ... each passes its parameter on by reference and has a local
    for depth in [2usize, 5, 9, 17, 33] {
        let mut b = B::new();
        let mut subs = vec![];
        for d in 0..depth {
            let mut body = vec![b.assign(var("L%"), num(d as i64 * 3 + 1))];
            if d + 1 < depth {
                body.push(b.s(K::Call(format!("Chain{}", d + 1), vec![var("N%"), bin(BinOp::Add, var("K%"), num(1))])));
            } else {
                body.push(b.print(vec![st("bottom"), var("N%"), var("K%")]));
            }
            body.push(b.assign(var("N%"), bin(BinOp::Add, var("N%"), var("L%"))));
            if d % 4 == 0 {
                body.push(b.print(vec![num(d as i64), var("N%"), var("K%"), var("L%")]));
            }
            let id = b.id();
            subs.push(SubDef {
                id,
                name: format!("Chain{}", d),
                is_function: false,
                params: vec![Param { name: "N%".into(), ty: None, is_array: false }, Param { name: "K%".into(), ty: None, is_array: false }],
                body,
                is_static: d % 3 == 2,
            });
        }
        let main = vec![b.assign(var("X%"), num(1)), b.s(K::Call("Chain0".into(), vec![var("X%"), num(0)])), b.print(vec![var("X%")]), b.s(K::Call("Chain0".into(), vec![var("X%"), num(0)])), b.print(vec![var("X%")])];
        out.push(ArgCase { prog: Prog { main, subs, declare: true, ..Default::default() }, label: format!("call chain of {} subprograms (every third STATIC)", depth), expect_reject: false });
    }
    // deep recursion with a local and a by-reference accumulator
    for depth in [8i64, 20, 50, 120] {
        let mut b = B::new();
        let inner = b.s(K::Call("Down".into(), vec![bin(BinOp::Sub, var("N%"), num(1)), var("Acc&")]));
        let body = vec![
            b.assign(var("L%"), var("N%")),
            b.s(K::If { arms: vec![(bin(BinOp::Gt, var("N%"), num(0)), vec![inner])], els: None, single_line: false }),
            b.assign(var("Acc&"), bin(BinOp::Add, var("Acc&"), var("L%"))),
        ];
        let id = b.id();
        let sub = SubDef { id, name: "Down".into(), is_function: false, params: vec![Param { name: "N%".into(), ty: None, is_array: false }, Param { name: "Acc&".into(), ty: None, is_array: false }], body, is_static: false };
        let main = vec![b.assign(var("T&"), num(0)), b.s(K::Call("Down".into(), vec![num(depth), var("T&")])), b.print(vec![var("T&")])];
        out.push(ArgCase { prog: Prog { main, subs: vec![sub], declare: true, ..Default::default() }, label: format!("recursion depth {} with a local and a by-reference accumulator", depth), expect_reject: false });
    }
    // many locals in one activation, next to as many module-level variables of the same names
    for count in [4usize, 12, 40] {
        let mut b = B::new();
        let mut body = vec![];
        for i in 0..count {
            body.push(b.assign(tv(&format!("W{}", i), TYS[i % 5]), val(TYS[i % 5], 50 + i as i64)));
        }
        body.push(b.print((0..count).step_by(count / 4).map(|i| tv(&format!("W{}", i), TYS[i % 5])).collect()));
        let id = b.id();
        let sub = SubDef { id, name: "Many".into(), is_function: false, params: vec![], body, is_static: false };
        let mut main = vec![];
        for i in 0..count {
            main.push(b.assign(tv(&format!("W{}", i), TYS[i % 5]), val(TYS[i % 5], i as i64)));
        }
        main.push(b.s(K::Call("Many".into(), vec![])));
        for chunk in (0..count).collect::<Vec<_>>().chunks(6) {
            main.push(b.print(chunk.iter().map(|i| tv(&format!("W{}", i), TYS[i % 5])).collect()));
        }
        out.push(ArgCase { prog: Prog { main, subs: vec![sub], declare: true, ..Default::default() }, label: format!("{} locals shadowing {} module-level variables", count, count), expect_reject: false });
    }
    out
}

// ---------------------------------------------------------------------------
// Call histories
// ---------------------------------------------------------------------------

pub const EVENTS: usize = 8;
pub const EVENT_NAMES: [&str; EVENTS] = [
    "call STATIC S",
    "call O (calls S)",
    "call P",
    "Show F(1) (STATIC function as argument)",
    "recursive R(2)",
    "assign SHARED G",
    "call STATIC Tally (calls S)",
    "Deep 2 (recursive ordinary SUB: S at the bottom, Tally on the way back)",
];

/// The program for a history of events; `in_sub`: the events run inside an ordinary SUB.
pub fn history_program(events: &[usize], in_sub: bool) -> Prog {
    let mut b = B::new();
    let mut seq: Vec<Stmt> = vec![];
    for (i, e) in events.iter().enumerate() {
        seq.push(b.print(vec![st("e"), num(i as i64)]));
        match e {
            0 => seq.push(b.s(K::Call("S".into(), vec![]))),
            1 => seq.push(b.s(K::Call("O".into(), vec![]))),
            2 => seq.push(b.s(K::Call("P".into(), vec![]))),
            3 => seq.push(b.s(K::Call("Show".into(), vec![bin(BinOp::Add, call("F%", vec![num(1)]), num(0))]))),
            4 => seq.push(b.print(vec![st("R"), call("R%", vec![num(2)])])),
            6 => seq.push(b.s(K::Call("Tally".into(), vec![]))),
            7 => seq.push(b.s(K::Call("Deep".into(), vec![num(2)]))),
            _ => seq.push(b.assign(var("G%"), bin(BinOp::Add, var("G%"), num(1)))),
        }
    }
    seq.push(b.print(vec![st("end"), var("G%")]));
    let shared = b.s(K::Dim { shared: true, redim: false, vars: vec![DimVar { name: "G%".into(), ty: None, dims: vec![] }] });
    let mut subs = vec![];
    let mk = |b: &mut B, name: &str, is_function: bool, params: Vec<Param>, body: Vec<Stmt>, is_static: bool| {
        let id = b.id();
        SubDef { id, name: name.into(), is_function, params, body, is_static }
    };
    let p_int = |n: &str| Param { name: n.into(), ty: None, is_array: false };
    let body = vec![b.assign(var("C%"), bin(BinOp::Add, var("C%"), num(1))), b.print(vec![st("S"), var("C%"), var("G%")])];
    subs.push(mk(&mut b, "S", false, vec![], body, true));
    let body = vec![b.assign(var("L%"), bin(BinOp::Add, var("L%"), num(1))), b.print(vec![st("O"), var("L%")]), b.s(K::Call("S".into(), vec![])), b.print(vec![st("O2"), var("L%")])];
    subs.push(mk(&mut b, "O", false, vec![], body, false));
    // P also has a local G! : a same-named local of another type must not hide the SHARED G%
    let body = vec![
        b.assign(var("L%"), bin(BinOp::Add, var("L%"), num(10))),
        b.assign(var("G!"), Expr::Num("2.5".into())),
        b.assign(var("G%"), bin(BinOp::Add, var("G%"), num(100))),
        b.print(vec![st("P"), var("L%"), var("G!"), var("G%")]),
    ];
    subs.push(mk(&mut b, "P", false, vec![], body, false));
    let body = vec![b.assign(var("K%"), bin(BinOp::Add, var("K%"), var("X%"))), b.assign(var("F%"), var("K%"))];
    subs.push(mk(&mut b, "F%", true, vec![p_int("X%")], body, true));
    let body = vec![b.print(vec![st("show"), var("V%")])];
    subs.push(mk(&mut b, "Show", false, vec![p_int("V%")], body, false));
    let then = vec![b.assign(var("R%"), num(0))];
    let els = vec![
        b.assign(var("L%"), var("N%")),
        b.assign(var("T%"), call("R%", vec![bin(BinOp::Sub, var("N%"), num(1))])),
        b.assign(var("R%"), bin(BinOp::Add, var("T%"), var("L%"))),
    ];
    let body = vec![b.s(K::If { arms: vec![(bin(BinOp::Le, var("N%"), num(0)), then)], els: Some(els), single_line: false })];
    subs.push(mk(&mut b, "R%", true, vec![p_int("N%")], body, false));
    // a second STATIC sub with its own counter, calling the first one
    let body = vec![
        b.assign(var("D%"), bin(BinOp::Add, var("D%"), num(10))),
        b.print(vec![st("T"), var("D%")]),
        b.s(K::Call("S".into(), vec![])),
        b.print(vec![st("T2"), var("D%")]),
    ];
    subs.push(mk(&mut b, "Tally", false, vec![], body, true));
    // a recursive ordinary SUB with a local per activation: S at the bottom, Tally on the way back
    let then = vec![b.s(K::Call("Deep".into(), vec![bin(BinOp::Sub, var("N%"), num(1))]))];
    let els = vec![b.s(K::Call("S".into(), vec![]))];
    let body = vec![
        b.assign(var("L%"), bin(BinOp::Add, var("N%"), num(50))),
        b.s(K::If { arms: vec![(bin(BinOp::Gt, var("N%"), num(0)), then)], els: Some(els), single_line: false }),
        b.s(K::Call("Tally".into(), vec![])),
        b.print(vec![st("D"), var("N%"), var("L%")]),
    ];
    subs.push(mk(&mut b, "Deep", false, vec![p_int("N%")], body, false));
    let main = if in_sub {
        let id = b.id();
        subs.push(SubDef { id, name: "Driver".into(), is_function: false, params: vec![], body: seq, is_static: false });
        vec![shared, b.s(K::Call("Driver".into(), vec![])), b.print(vec![st("done")])]
    } else {
        let mut m = vec![shared];
        m.extend(seq);
        m
    };
    Prog { main, subs, declare: true, ..Default::default() }
}

/// All event sequences of length 1..=depth, shortest first; index -> sequence.
pub fn history_count(depth: usize) -> u64 {
    (1..=depth).map(|d| (EVENTS as u64).pow(d as u32)).sum()
}

pub fn history_at(mut idx: u64, depth: usize) -> Vec<usize> {
    for d in 1..=depth {
        let n = (EVENTS as u64).pow(d as u32);
        if idx < n {
            let mut v = vec![0; d];
            for k in (0..d).rev() {
                v[k] = (idx % EVENTS as u64) as usize;
                idx /= EVENTS as u64;
            }
            return v;
        }
        idx -= n;
    }
    vec![]
}
