//! C05 generators: jump layouts (GOTO / GOSUB / RETURN), loop escapes, single faults
//! under every handler mode, and handler enabling / disabling histories.

use crate::gast::*;

// ---------------------------------------------------------------------------
// (1) Jump layouts
// ---------------------------------------------------------------------------

#[derive(Clone, Copy, Debug, PartialEq, Eq)]
pub enum EndAct {
    Fall,
    End,
    Return,
    Goto(usize),
    Gosub(usize),
    ReturnTo(usize),
}

pub fn end_acts(k: usize) -> Vec<EndAct> {
    let mut v = vec![EndAct::Fall, EndAct::End, EndAct::Return];
    for j in 0..k {
        v.push(EndAct::Goto(j));
    }
    for j in 0..k {
        v.push(EndAct::Gosub(j));
    }
    for j in 0..k {
        v.push(EndAct::ReturnTo(j));
    }
    v
}

fn permutations(k: usize) -> Vec<Vec<usize>> {
    match k {
        1 => vec![vec![0]],
        2 => vec![vec![0, 1], vec![1, 0]],
        _ => vec![vec![0, 1, 2], vec![0, 2, 1], vec![1, 0, 2], vec![1, 2, 0], vec![2, 0, 1], vec![2, 1, 0]],
    }
}

/// A layout: k blocks in the order `order`, block i ends with `acts[i]`, entry by
/// fall-through (None) or by GOTO to a block.
pub fn jump_program(order: &[usize], acts: &[EndAct], entry: Option<usize>, in_sub: bool) -> Prog {
    let mut b = B::new();
    let label = |i: usize| format!("B{}", i + 1);
    let mut seq = vec![b.print(vec![st("start")])];
    if let Some(e) = entry {
        seq.push(b.s(K::Goto(label(e))));
    }
    for &i in order {
        seq.push(b.s(K::Label(label(i))));
        // every block counts its executions; the program stops after 7 block executions
        seq.push(b.assign(var("N%"), bin(BinOp::Add, var("N%"), num(1))));
        let stop = vec![b.print(vec![st("limit")]), b.s(if in_sub { K::ExitSub } else { K::End })];
        seq.push(b.s(K::If { arms: vec![(bin(BinOp::Gt, var("N%"), num(7)), stop)], els: None, single_line: false }));
        seq.push(b.print(vec![st(&format!("b{}", i + 1)), var("N%")]));
        match acts[i] {
            EndAct::Fall => {}
            EndAct::End => seq.push(b.s(if in_sub { K::ExitSub } else { K::End })),
            EndAct::Return => seq.push(b.s(K::Return(None))),
            EndAct::Goto(j) => seq.push(b.s(K::Goto(label(j)))),
            EndAct::Gosub(j) => {
                seq.push(b.s(K::Gosub(label(j))));
                seq.push(b.print(vec![st(&format!("r{}", i + 1))]));
            }
            // RETURN with a label is only legal at module level
            EndAct::ReturnTo(j) => seq.push(b.s(if in_sub { K::Return(None) } else { K::Return(Some(label(j))) })),
        }
    }
    seq.push(b.print(vec![st("fin"), var("N%")]));
    if in_sub {
        let id = b.id();
        let call = b.s(K::Call("Work".into(), vec![]));
        let back = b.print(vec![st("back")]);
        Prog {
            main: vec![call, back],
            subs: vec![SubDef { id, name: "Work".into(), is_function: false, params: vec![], body: seq, is_static: false }],
            declare: true,
            ..Default::default()
        }
    } else {
        Prog { main: seq, ..Default::default() }
    }
}

/// (k, order, acts, entry) for all layouts of the tier.
pub fn jump_layouts(quick: bool) -> Vec<(Vec<usize>, Vec<EndAct>, Option<usize>)> {
    let mut out = vec![];
    for k in 1..=3usize {
        let acts = end_acts(k);
        let mut combos: Vec<Vec<EndAct>> = vec![vec![]];
        for _ in 0..k {
            let mut next = vec![];
            for c in &combos {
                for a in &acts {
                    let mut n = c.clone();
                    n.push(*a);
                    next.push(n);
                }
            }
            combos = next;
        }
        let orders = if k == 3 && quick { vec![vec![0, 1, 2], vec![2, 0, 1]] } else { permutations(k) };
        for order in &orders {
            let entries: Vec<Option<usize>> = if k == 3 && quick {
                vec![None, Some(2)]
            } else {
                std::iter::once(None).chain((0..k).map(Some)).collect()
            };
            for entry in entries {
                for c in &combos {
                    out.push((order.clone(), c.clone(), entry));
                }
            }
        }
    }
    out
}

// ---------------------------------------------------------------------------
// (2) Loop escapes
// ---------------------------------------------------------------------------

/// Nest of `depth` loops (kinds per level), a GOTO or GOSUB from the innermost body to a label
/// placed in the body of level `target` (0 = after the whole nest), taken when the innermost
/// counter has its second value.
pub fn escape_program(kinds: &[usize], target: usize, gosub: bool) -> Prog {
    let mut b = B::new();
    let depth = kinds.len();
    // innermost body
    let mut body: Vec<Stmt> = vec![];
    let counters: Vec<String> = (0..depth).map(|d| format!("I{}%", d + 1)).collect();
    let mut items = vec![st("in")];
    for c in &counters {
        items.push(var(c));
    }
    body.push(b.print(items));
    let inner = var(&counters[depth - 1]);
    let second = 2 + 10 * (depth as i64 - 1);
    let jump = if gosub { b.s(K::Gosub("Out".into())) } else { b.s(K::Goto("Out".into())) };
    body.push(b.s(K::If { arms: vec![(bin(BinOp::Eq, inner, num(second)), vec![jump])], els: None, single_line: false }));
    body.push(b.print(vec![st("tail")]));
    // wrap the loops, innermost first
    let mut current = body;
    for d in (0..depth).rev() {
        let c = var(&counters[d]);
        let lo = 1 + 10 * d as i64;
        let hi = lo + 2;
        // the landing label sits at the end of the body of level `target` (1-based), after the inner loop
        let mut level_body = current;
        if target == d + 1 && d + 1 < depth {
            level_body.push(b.s(K::Label("Out".into())));
            let mut it = vec![st("landed")];
            for cc in &counters {
                it.push(var(cc));
            }
            level_body.push(b.print(it));
            if gosub {
                level_body.push(b.print(vec![st("no return here")]));
            }
        }
        let s = match kinds[d] {
            // blocks without a counter: IF, ELSE, CASE, CASE ELSE
            4 => b.s(K::If { arms: vec![(num(-1), level_body)], els: None, single_line: false }),
            5 => {
                let t = vec![b.print(vec![st("then")])];
                b.s(K::If { arms: vec![(num(0), t)], els: Some(level_body), single_line: false })
            }
            6 => {
                let e = vec![b.print(vec![st("case else")])];
                b.s(K::Select { subject: num(1), cases: vec![(vec![CaseExpr::Range(num(0), num(2))], level_body)], els: Some(e) })
            }
            7 => {
                let c1 = vec![b.print(vec![st("case 1")])];
                b.s(K::Select { subject: num(5), cases: vec![(vec![CaseExpr::Simple(num(1))], c1)], els: Some(level_body) })
            }
            0 => b.s(K::For { var: c.clone(), from: num(lo), to: num(hi), step: None, body: level_body, next_var: false }),
            1 => b.s(K::For { var: c.clone(), from: num(hi), to: num(lo), step: Some(num(-1)), body: level_body, next_var: true }),
            2 => {
                let mut wb = vec![b.assign(c.clone(), bin(BinOp::Add, c.clone(), num(1)))];
                wb.extend(level_body);
                let init = b.assign(c.clone(), num(lo - 1));
                let w = b.s(K::While(bin(BinOp::Lt, c.clone(), num(hi)), wb));
                current = vec![init, w];
                continue;
            }
            _ => {
                let mut wb = vec![b.assign(c.clone(), bin(BinOp::Add, c.clone(), num(1)))];
                wb.extend(level_body);
                let init = b.assign(c.clone(), num(lo - 1));
                let w = b.s(K::Do(DoKind::UntilBottom, bin(BinOp::Ge, c.clone(), num(hi)), wb));
                current = vec![init, w];
                continue;
            }
        };
        current = vec![s];
    }
    let mut main = current;
    let mut fin = vec![st("after")];
    for c in &counters {
        fin.push(var(c));
    }
    if target == 0 {
        if gosub {
            main.push(b.print(fin.clone()));
            main.push(b.s(K::End));
            main.push(b.s(K::Label("Out".into())));
            main.push(b.print(vec![st("sub")]));
            main.push(b.s(K::Return(None)));
        } else {
            main.push(b.s(K::Label("Out".into())));
            main.push(b.print(fin));
        }
    } else {
        main.push(b.print(fin));
    }
    Prog { main, ..Default::default() }
}

pub fn escape_cases() -> Vec<(Vec<usize>, usize, bool)> {
    let mut out = vec![];
    for depth in 1..=3usize {
        let mut kinds_list: Vec<Vec<usize>> = vec![vec![]];
        for _ in 0..depth {
            let mut next = vec![];
            for k in &kinds_list {
                for kind in 0..4 {
                    let mut n = k.clone();
                    n.push(kind);
                    next.push(n);
                }
            }
            kinds_list = next;
        }
        for kinds in kinds_list {
            for target in 0..depth {
                // a GOSUB target inside a loop body would be entered by fall-through as well: only after the nest
                out.push((kinds.clone(), target, false));
                if target == 0 {
                    out.push((kinds.clone(), target, true));
                }
            }
        }
    }
    // nests with IF / ELSE / CASE / CASE ELSE blocks between the loops (the innermost level is a loop, which
    // decides when the jump is taken, and at least one level is a block)
    for depth in 2..=3usize {
        let mut kinds_list: Vec<Vec<usize>> = vec![vec![]];
        for level in 0..depth {
            let mut next = vec![];
            for k in &kinds_list {
                let menu: &[usize] = if level + 1 == depth { &[0, 2] } else { &[0, 3, 4, 5, 6, 7] };
                for kind in menu {
                    let mut n = k.clone();
                    n.push(*kind);
                    next.push(n);
                }
            }
            kinds_list = next;
        }
        for kinds in kinds_list {
            if !kinds.iter().any(|k| *k >= 4) {
                continue;
            }
            for target in 0..depth {
                out.push((kinds.clone(), target, false));
                if target == 0 {
                    out.push((kinds.clone(), target, true));
                }
            }
        }
    }
    out
}

// ---------------------------------------------------------------------------
// (2b) Jumps INTO a block: GOTO to a label inside an IF / ELSEIF / ELSE / CASE / CASE ELSE block or a
// WHILE / DO body (not a FOR body, whose limit and step would be unset). The block is entered in the
// middle, runs to its end and control continues as the block prescribes.
// ---------------------------------------------------------------------------

pub const INTO_KINDS: [&str; 12] = [
    "IF block (condition true)",
    "IF block (condition false)",
    "ELSE block",
    "ELSEIF block",
    "CASE block (subject matches)",
    "CASE block (subject does not match)",
    "CASE ELSE block",
    "WHILE body (condition true)",
    "WHILE body (condition false)",
    "DO WHILE body",
    "DO .. LOOP UNTIL body",
    "IF block inside a WHILE body",
];

pub fn jump_into_program(kind: usize, in_sub: bool, twice: bool) -> Prog {
    let mut b = B::new();
    let mut v = vec![b.print(vec![st("start")])];
    if twice {
        // the jump is taken on every round of an outer loop
        v.push(b.assign(var("N%"), num(0)));
        v.push(b.s(K::Label("Again".into())));
        v.push(b.assign(var("N%"), bin(BinOp::Add, var("N%"), num(1))));
    }
    v.push(b.assign(var("C%"), num(if matches!(kind, 8) { 5 } else { 0 })));
    v.push(b.s(K::Goto("Inside".into())));
    let skipped = b.print(vec![st("skipped")]);
    let label = b.s(K::Label("Inside".into()));
    let bump = b.assign(var("C%"), bin(BinOp::Add, var("C%"), num(1)));
    let inside = b.print(vec![st("inside"), var("C%")]);
    let body = vec![skipped, label, bump, inside];
    let other = |b: &mut B, t: &str| vec![b.print(vec![st(t)])];
    let blk = match kind {
        0 => b.s(K::If { arms: vec![(num(-1), body)], els: None, single_line: false }),
        1 => {
            let e = other(&mut b, "else");
            b.s(K::If { arms: vec![(num(0), body)], els: Some(e), single_line: false })
        }
        2 => {
            let t = other(&mut b, "then");
            b.s(K::If { arms: vec![(num(-1), t)], els: Some(body), single_line: false })
        }
        3 => {
            let t = other(&mut b, "then");
            let e = other(&mut b, "else");
            b.s(K::If { arms: vec![(num(-1), t), (num(-1), body)], els: Some(e), single_line: false })
        }
        4 | 5 => {
            let c2 = other(&mut b, "case 2");
            let e = other(&mut b, "case else");
            b.s(K::Select { subject: num(if kind == 4 { 1 } else { 2 }), cases: vec![(vec![CaseExpr::Simple(num(1))], body), (vec![CaseExpr::Simple(num(2))], c2)], els: Some(e) })
        }
        6 => {
            let c1 = other(&mut b, "case 1");
            b.s(K::Select { subject: num(1), cases: vec![(vec![CaseExpr::Simple(num(1))], c1)], els: Some(body) })
        }
        7 | 8 => b.s(K::While(bin(BinOp::Lt, var("C%"), num(2)), body)),
        9 => b.s(K::Do(DoKind::WhileTop, bin(BinOp::Lt, var("C%"), num(2)), body)),
        10 => b.s(K::Do(DoKind::UntilBottom, bin(BinOp::Ge, var("C%"), num(2)), body)),
        _ => {
            let i = b.s(K::If { arms: vec![(bin(BinOp::Lt, var("C%"), num(9)), body)], els: None, single_line: false });
            let tail = b.print(vec![st("round"), var("C%")]);
            b.s(K::While(bin(BinOp::Lt, var("C%"), num(2)), vec![i, tail]))
        }
    };
    v.push(blk);
    v.push(b.print(vec![st("after"), var("C%")]));
    if twice {
        let again = b.s(K::Goto("Again".into()));
        v.push(b.s(K::If { arms: vec![(bin(BinOp::Lt, var("N%"), num(3)), vec![again])], els: None, single_line: false }));
        v.push(b.print(vec![st("end"), var("N%")]));
    }
    if in_sub {
        let id = b.id();
        let call = b.s(K::Call("Work".into(), vec![]));
        let fin = b.print(vec![st("back")]);
        Prog { main: vec![call, fin], subs: vec![SubDef { id, name: "Work".into(), is_function: false, params: vec![], body: v, is_static: false }], declare: true, ..Default::default() }
    } else {
        Prog { main: v, ..Default::default() }
    }
}

// ---------------------------------------------------------------------------
// (2c) Jumps across scopes: a label belongs to the module-level code or to one subprogram; a GOTO, GOSUB
// or RETURN label that names a label of another scope must be rejected by the checker (Label not defined).
// ---------------------------------------------------------------------------

pub const SCOPE_DIRS: [&str; 3] = ["from a SUB to a module-level label", "from the module level to a label inside a SUB", "from one SUB to a label inside another SUB"];
pub const SCOPE_JUMPS: [&str; 3] = ["GOTO", "GOSUB", "RETURN label"];

/// Returns the program and the statement id of the offending jump.
pub fn cross_scope_program(dir: usize, jump: usize) -> (Prog, Id) {
    let mut b = B::new();
    let mk_jump = |b: &mut B, target: &str| -> (Vec<Stmt>, Id) {
        match jump {
            0 => {
                let s = b.s(K::Goto(target.into()));
                let id = s.id;
                (vec![s], id)
            }
            1 => {
                let s = b.s(K::Gosub(target.into()));
                let id = s.id;
                (vec![s], id)
            }
            _ => {
                // a local GOSUB whose routine returns to the foreign label
                let g = b.s(K::Gosub("Loc".into()));
                let skip = b.s(K::Goto("Past".into()));
                let l = b.s(K::Label("Loc".into()));
                let r = b.s(K::Return(Some(target.into())));
                let id = r.id;
                let p = b.s(K::Label("Past".into()));
                (vec![g, skip, l, r, p], id)
            }
        }
    };
    let arr = b.s(K::Dim { shared: false, redim: false, vars: vec![DimVar { name: "A%".into(), ty: None, dims: vec![(None, num(2))] }] });
    let rec = b.s(K::Dim { shared: false, redim: false, vars: vec![DimVar { name: "R".into(), ty: Some(DeclTy::Rec("Rec".into())), dims: vec![] }] });
    let mut main = vec![arr, rec, b.print(vec![st("start")])];
    let mut subs = vec![];
    let bad;
    match dir {
        0 => {
            main.push(b.s(K::Call("Work".into(), vec![])));
            main.push(b.print(vec![st("back")]));
            main.push(b.s(K::End));
            main.push(b.s(K::Label("Target".into())));
            main.push(b.print(vec![st("target")]));
            // a record of the module: in the frame of a subprogram the name holds no record
            main.push(b.assign(Expr::Field(Box::new(var("R")), "N".into()), num(1)));
            main.push(b.assign(Expr::Index("A%".into(), vec![num(1)]), num(1)));
            main.push(b.s(K::End));
            let mut body = vec![b.print(vec![st("work")])];
            let (j, id) = mk_jump(&mut b, "Target");
            bad = id;
            body.extend(j);
            let id = b.id();
            subs.push(SubDef { id, name: "Work".into(), is_function: false, params: vec![], body, is_static: false });
        }
        1 => {
            let (j, id) = mk_jump(&mut b, "Target");
            bad = id;
            main.extend(j);
            main.push(b.print(vec![st("after")]));
            main.push(b.s(K::End));
            let body = vec![b.print(vec![st("work")]), b.s(K::Label("Target".into())), b.print(vec![st("target")])];
            let id = b.id();
            subs.push(SubDef { id, name: "Work".into(), is_function: false, params: vec![], body, is_static: false });
        }
        _ => {
            main.push(b.s(K::Call("First".into(), vec![])));
            main.push(b.print(vec![st("back")]));
            let mut body = vec![b.print(vec![st("first")])];
            let (j, id) = mk_jump(&mut b, "Target");
            bad = id;
            body.extend(j);
            let id = b.id();
            subs.push(SubDef { id, name: "First".into(), is_function: false, params: vec![], body, is_static: false });
            let body = vec![b.print(vec![st("second")]), b.s(K::Label("Target".into())), b.print(vec![st("target")])];
            let id = b.id();
            subs.push(SubDef { id, name: "Second".into(), is_function: false, params: vec![], body, is_static: false });
        }
    }
    let types = vec![TypeDef { name: "Rec".into(), fields: vec![("N".into(), DeclTy::Scalar(Ty::Int))] }];
    (Prog { types, main, subs, declare: true, ..Default::default() }, bad)
}

// ---------------------------------------------------------------------------
// (3) One fault
// ---------------------------------------------------------------------------

pub const FAULTS: [&str; 14] = [
    "division by zero",
    "integer overflow",
    "subscript out of range",
    "illegal function call inside an expression",
    "OPEN of a missing file",
    "error inside a called SUB",
    "error inside a called FUNCTION",
    "RETURN without GOSUB",
    "illegal function call after a user FUNCTION returned in the same statement",
    "illegal function call after a user FUNCTION that executes ON ERROR RESUME NEXT returned in the same statement",
    "RETURN label without GOSUB",
    "error inside a FUNCTION that is the right operand of a binary operator",
    "error inside a FUNCTION called in the subscript of an assignment target",
    "error inside the second FUNCTION call of a statement, which runs deeper on the stack than the first",
];

pub const CONTAINERS: [&str; 17] = [
    "main",
    "IF block",
    "ELSE block",
    "FOR body",
    "WHILE body",
    "DO body",
    "CASE block",
    "SUB body",
    "FUNCTION body",
    "end of the module (subprograms follow)",
    "ELSEIF block (an ELSEIF and an ELSE follow)",
    "middle CASE block (a matching CASE and a CASE ELSE follow)",
    "CASE ELSE block",
    "FOR STEP -1 body",
    "DO WHILE body (test at the top)",
    "IF block that ends a FOR body",
    "single-line IF",
];

pub const HANDLERS: [&str; 9] = [
    "no handler",
    "ON ERROR GOTO + RESUME (operand repaired)",
    "ON ERROR GOTO + RESUME NEXT",
    "ON ERROR GOTO + RESUME label",
    "ON ERROR RESUME NEXT",
    "handler enabled, then ON ERROR GOTO 0",
    "ON ERROR GOTO, the handler itself fails before RESUME NEXT",
    "ON ERROR GOTO: RESUME NEXT the first time, repair + RESUME the second time",
    "ON ERROR GOTO: repair + RESUME the first time, RESUME NEXT the second time (the loop breaks the operand again)",
];

fn failing(b: &mut B, fault: usize) -> Stmt {
    match fault {
        0 => b.assign(var("X%"), bin(BinOp::Div, num(6), var("Z%"))),
        1 => b.assign(var("X%"), bin(BinOp::Add, num(32767), var("K%"))),
        2 => b.assign(Expr::Index("A%".into(), vec![var("IX%")]), num(1)),
        3 => b.assign(var("S$"), bin(BinOp::Add, st("<"), builtin("LEFT$", vec![st("abc"), var("M%")]))),
        4 => b.s(K::Open { name: st("missing.txt"), mode: FileMode::Input, handle: 1, len: None }),
        5 => b.s(K::Call("Fail".into(), vec![])),
        6 => b.assign(var("X%"), call("FailF%", vec![num(1)])),
        8 => b.assign(var("S$"), bin(BinOp::Add, call("Okf$", vec![num(1)]), builtin("LEFT$", vec![st("abc"), var("M%")]))),
        9 => b.assign(var("S$"), bin(BinOp::Add, call("Arm$", vec![num(1)]), builtin("LEFT$", vec![st("abc"), var("M%")]))),
        10 => b.s(K::Return(Some("After".into()))),
        11 => b.assign(var("X%"), bin(BinOp::Add, num(5), call("FailF%", vec![num(1)]))),
        13 => b.assign(var("X%"), bin(BinOp::Add, call("Okn%", vec![num(1)]), Expr::Paren(Box::new(bin(BinOp::Add, num(2), Expr::Paren(Box::new(bin(BinOp::Add, num(3), call("FailF%", vec![num(1)]))))))))),
        12 => b.assign(Expr::Index("A%".into(), vec![bin(BinOp::Add, num(1), bin(BinOp::Mul, call("FailF%", vec![num(1)]), num(0)))]), num(3)),
        _ => b.s(K::Return(None)),
    }
}

/// The program for one (fault, container, position in the container, handler mode, handler action).
pub fn fault_program(fault: usize, container: usize, position: usize, handler: usize, change_var: bool) -> Option<Prog> {
    // RESUME (retry) needs a repairable operand
    if matches!(handler, 1 | 7 | 8) && matches!(fault, 4 | 7 | 10) {
        return None;
    }
    // RETURN label names a module-level label: module-level containers only (and the label After must exist)
    if fault == 10 && matches!(container, 7 | 8 | 9) {
        return None;
    }
    // the alternating handlers need the statement to fail twice: loop bodies only
    if matches!(handler, 7 | 8) && !matches!(container, 3 | 4 | 5 | 13 | 14) {
        return None;
    }
    // (fault 8 is repaired like fault 3: M% = 1)
    // RESUME label out of a subprogram is outside the reference
    let fault_in_sub = matches!(fault, 5 | 6 | 11 | 12 | 13) || matches!(container, 7 | 8);
    if handler == 3 && fault_in_sub {
        return None;
    }
    // container 9: the failing statement is the textually last statement of the module
    let module_end = container == 9;
    if module_end && (position != 2 || handler == 3) {
        return None;
    }
    let mut b = B::new();
    let mut main = vec![
        b.s(K::Dim { shared: true, redim: false, vars: vec![DimVar { name: "A%".into(), ty: None, dims: vec![(None, num(2))] }] }),
        b.s(K::Dim {
            shared: true,
            redim: false,
            vars: ["Z%", "K%", "IX%", "M%", "W%", "X%", "S$", "HQ%", "HZ%"].iter().map(|n| DimVar { name: n.to_string(), ty: None, dims: vec![] }).collect(),
        }),
        b.assign(var("Z%"), num(0)),
        b.assign(var("K%"), num(1)),
        b.assign(var("IX%"), num(5)),
        b.assign(var("M%"), num(-1)),
        // a module-level variable that is not shared: it reads 0 if execution continues in a foreign context
        b.assign(var("NS%"), num(7)),
        // and an array that is not shared: it does not exist in a foreign context
        b.s(K::Dim { shared: false, redim: false, vars: vec![DimVar { name: "NA%".into(), ty: None, dims: vec![(None, num(2))] }] }),
        b.assign(Expr::Index("NA%".into(), vec![num(1)]), num(3)),
        // and a record that is not shared
        b.s(K::Dim { shared: false, redim: false, vars: vec![DimVar { name: "NR".into(), ty: Some(DeclTy::Rec("Rec".into())), dims: vec![] }] }),
        b.assign(Expr::Field(Box::new(var("NR")), "N".into()), num(4)),
    ];
    if module_end {
        // the handler comes first and is jumped over
        main.push(b.s(K::Goto("Start".into())));
        main.push(b.s(K::Label("H".into())));
        main.push(b.print(vec![st("h"), builtin("ERR", vec![])]));
        if change_var {
            main.push(b.assign(var("W%"), bin(BinOp::Add, var("W%"), num(1))));
        }
        if handler == 6 {
            main.push(b.assign(var("HQ%"), bin(BinOp::Div, num(1), var("HZ%"))));
        }
        if handler == 1 {
            main.push(b.assign(var("Z%"), num(2)));
            main.push(b.assign(var("K%"), num(0)));
            main.push(b.assign(var("IX%"), num(1)));
            main.push(b.assign(var("M%"), num(1)));
            main.push(b.s(K::Resume));
        } else {
            main.push(b.s(K::ResumeNext));
        }
        main.push(b.s(K::Label("Start".into())));
    }
    match handler {
        1 | 2 | 3 | 6 | 7 | 8 => main.push(b.s(K::OnErrorGoto("H".into()))),
        4 => main.push(b.s(K::OnErrorResumeNext)),
        5 => {
            main.push(b.s(K::OnErrorGoto("H".into())));
            main.push(b.s(K::OnErrorGoto0));
        }
        _ => {}
    }
    // the three statements of the container
    let f = failing(&mut b, fault);
    let ta = b.print(vec![st("a"), var("W%")]);
    let tb = b.print(vec![st("b"), var("W%"), builtin("ERR", vec![])]);
    let mut inner: Vec<Stmt> = match position {
        0 => vec![f, ta, tb],
        1 => vec![ta, f, tb],
        _ => vec![ta, tb, f],
    };
    if handler == 8 {
        // every round of the loop breaks the operands again
        let mut again = vec![b.assign(var("Z%"), num(0)), b.assign(var("K%"), num(1)), b.assign(var("IX%"), num(5)), b.assign(var("M%"), num(-1))];
        again.extend(inner);
        inner = again;
    }
    let mut subs: Vec<SubDef> = vec![];
    match container {
        0 => main.extend(inner),
        1 => {
            let e = vec![b.print(vec![st("else branch")])];
            main.push(b.s(K::If { arms: vec![(num(-1), inner)], els: Some(e), single_line: false }));
        }
        2 => {
            let t = vec![b.print(vec![st("then branch")])];
            main.push(b.s(K::If { arms: vec![(num(0), t)], els: Some(inner), single_line: false }));
        }
        3 => main.push(b.s(K::For { var: var("I%"), from: num(1), to: num(2), step: None, body: inner, next_var: false })),
        4 => {
            let mut body = vec![b.assign(var("C%"), bin(BinOp::Add, var("C%"), num(1)))];
            body.extend(inner);
            main.push(b.s(K::While(bin(BinOp::Lt, var("C%"), num(2)), body)));
        }
        5 => {
            let mut body = vec![b.assign(var("C%"), bin(BinOp::Add, var("C%"), num(1)))];
            body.extend(inner);
            main.push(b.s(K::Do(DoKind::UntilBottom, bin(BinOp::Ge, var("C%"), num(2)), body)));
        }
        6 => {
            let other = vec![b.print(vec![st("case else")])];
            main.push(b.s(K::Select { subject: num(1), cases: vec![(vec![CaseExpr::Simple(num(1))], inner)], els: Some(other) }));
        }
        10 => {
            let t = vec![b.print(vec![st("then branch")])];
            let o1 = vec![b.print(vec![st("second elseif branch")])];
            let o2 = vec![b.print(vec![st("else branch")])];
            main.push(b.s(K::If { arms: vec![(num(0), t), (num(-1), inner), (num(-1), o1)], els: Some(o2), single_line: false }));
        }
        11 => {
            let c1 = vec![b.print(vec![st("case 1")])];
            let c3 = vec![b.print(vec![st("case 2 again")])];
            let other = vec![b.print(vec![st("case else")])];
            main.push(b.s(K::Select {
                subject: num(2),
                cases: vec![(vec![CaseExpr::Simple(num(1))], c1), (vec![CaseExpr::Simple(num(2))], inner), (vec![CaseExpr::Range(num(2), num(3))], c3)],
                els: Some(other),
            }));
        }
        12 => {
            let c1 = vec![b.print(vec![st("case 1")])];
            main.push(b.s(K::Select { subject: num(5), cases: vec![(vec![CaseExpr::Simple(num(1))], c1)], els: Some(inner) }));
        }
        13 => main.push(b.s(K::For { var: var("I%"), from: num(2), to: num(1), step: Some(num(-1)), body: inner, next_var: true })),
        14 => {
            let mut body = vec![b.assign(var("C%"), bin(BinOp::Add, var("C%"), num(1)))];
            body.extend(inner);
            main.push(b.s(K::Do(DoKind::WhileTop, bin(BinOp::Lt, var("C%"), num(2)), body)));
        }
        15 => {
            let e = vec![b.print(vec![st("else branch")])];
            let iff = b.s(K::If { arms: vec![(num(-1), inner)], els: Some(e), single_line: false });
            let head = b.print(vec![st("i"), var("I%")]);
            main.push(b.s(K::For { var: var("I%"), from: num(1), to: num(2), step: None, body: vec![head, iff], next_var: false }));
        }
        16 => {
            let e = vec![b.print(vec![st("else branch")])];
            main.push(b.s(K::If { arms: vec![(num(-1), inner)], els: Some(e), single_line: true }));
        }
        9 => {
            main.extend(inner);
            let body = vec![b.print(vec![st("a subprogram body ran without being called")])];
            let id = b.id();
            subs.push(SubDef { id, name: "Tail".into(), is_function: false, params: vec![], body, is_static: false });
        }
        7 => {
            main.push(b.s(K::Call("Work".into(), vec![])));
            let id = b.id();
            subs.push(SubDef { id, name: "Work".into(), is_function: false, params: vec![], body: inner, is_static: false });
        }
        _ => {
            let mut body = inner;
            body.push(b.assign(var("WorkF%"), num(7)));
            main.push(b.print(vec![st("f"), call("WorkF%", vec![num(1)])]));
            let id = b.id();
            subs.push(SubDef { id, name: "WorkF%".into(), is_function: true, params: vec![Param { name: "P%".into(), ty: None, is_array: false }], body, is_static: false });
        }
    }
    if !module_end {
    main.push(b.s(K::Label("After".into())));
    main.push(b.print(vec![st("done"), builtin("ERR", vec![]), var("W%"), var("X%"), var("NS%"), Expr::Field(Box::new(var("NR")), "N".into()), Expr::Index("NA%".into(), vec![num(1)])]));
    main.push(b.s(K::End));
    // the handler
    main.push(b.s(K::Label("H".into())));
    main.push(b.print(vec![st("h"), builtin("ERR", vec![])]));
    if change_var {
        main.push(b.assign(var("W%"), bin(BinOp::Add, var("W%"), num(1))));
    }
    if handler == 6 {
        main.push(b.assign(var("HQ%"), bin(BinOp::Div, num(1), var("HZ%"))));
    }
    match handler {
        7 | 8 => {
            // HQ% counts the failures
            let repair = |b: &mut B| vec![b.assign(var("Z%"), num(2)), b.assign(var("K%"), num(0)), b.assign(var("IX%"), num(1)), b.assign(var("M%"), num(1))];
            let mut first = vec![b.assign(var("HQ%"), num(1))];
            if handler == 7 {
                first.push(b.s(K::ResumeNext));
            } else {
                first.extend(repair(&mut b));
                first.push(b.s(K::Resume));
            }
            main.push(b.s(K::If { arms: vec![(bin(BinOp::Eq, var("HQ%"), num(0)), first)], els: None, single_line: false }));
            if handler == 7 {
                main.extend(repair(&mut b));
                main.push(b.s(K::Resume));
            } else {
                main.push(b.s(K::ResumeNext));
            }
        }
        1 => {
            // repair the operands so that the statement succeeds when re-executed
            main.push(b.assign(var("Z%"), num(2)));
            main.push(b.assign(var("K%"), num(0)));
            main.push(b.assign(var("IX%"), num(1)));
            main.push(b.assign(var("M%"), num(1)));
            main.push(b.s(K::Resume));
        }
        3 => main.push(b.s(K::ResumeLabel("After".into()))),
        _ => main.push(b.s(K::ResumeNext)),
    }
    }
    // helper subprograms
    if fault == 5 {
        let body = vec![b.print(vec![st("fail in")]), b.assign(var("Q%"), bin(BinOp::Div, num(1), var("Z%"))), b.print(vec![st("fail out")])];
        let id = b.id();
        subs.push(SubDef { id, name: "Fail".into(), is_function: false, params: vec![], body, is_static: false });
    }
    if fault == 9 {
        // the function arms ON ERROR RESUME NEXT while the calling statement is under way
        let body = vec![b.s(K::OnErrorResumeNext), b.print(vec![st("arm")]), b.assign(var("Arm$"), st("x"))];
        let id = b.id();
        subs.push(SubDef { id, name: "Arm$".into(), is_function: true, params: vec![Param { name: "P%".into(), ty: None, is_array: false }], body, is_static: false });
    }
    if fault == 8 {
        let body = vec![b.print(vec![st("okf")]), b.assign(var("Okf$"), st("x"))];
        let id = b.id();
        subs.push(SubDef { id, name: "Okf$".into(), is_function: true, params: vec![Param { name: "P%".into(), ty: None, is_array: false }], body, is_static: false });
    }
    if fault == 13 {
        let body = vec![b.print(vec![st("okn")]), b.assign(var("Okn%"), num(3))];
        let id = b.id();
        subs.push(SubDef { id, name: "Okn%".into(), is_function: true, params: vec![Param { name: "P%".into(), ty: None, is_array: false }], body, is_static: false });
    }
    if matches!(fault, 6 | 11 | 12 | 13) {
        let body = vec![b.assign(var("FailF%"), bin(BinOp::Div, num(8), var("Z%"))), b.print(vec![st("failf out")])];
        let id = b.id();
        subs.push(SubDef { id, name: "FailF%".into(), is_function: true, params: vec![Param { name: "P%".into(), ty: None, is_array: false }], body, is_static: false });
    }
    let types = vec![TypeDef { name: "Rec".into(), fields: vec![("N".into(), DeclTy::Scalar(Ty::Int))] }];
    Some(Prog { types, main, subs, declare: true, ..Default::default() })
}

pub fn fault_cases() -> Vec<(usize, usize, usize, usize, bool)> {
    let mut out = vec![];
    for fault in 0..FAULTS.len() {
        for container in 0..CONTAINERS.len() {
            for position in 0..3 {
                for handler in 0..HANDLERS.len() {
                    for change in [false, true] {
                        if change && matches!(handler, 0 | 4 | 5 | 6 | 7 | 8) {
                            continue;
                        }
                        out.push((fault, container, position, handler, change));
                    }
                }
            }
        }
    }
    out
}

// ---------------------------------------------------------------------------
// (4) Handler histories
// ---------------------------------------------------------------------------

pub const HEVENTS: usize = 6;
pub const HEVENT_NAMES: [&str; HEVENTS] = ["ON ERROR GOTO H1", "ON ERROR GOTO H2", "ON ERROR GOTO 0", "ON ERROR RESUME NEXT", "failing statement", "trace"];

pub fn handler_history_program(events: &[usize]) -> Prog {
    let mut b = B::new();
    let mut main = vec![b.assign(var("Z%"), num(0))];
    for (i, e) in events.iter().enumerate() {
        match e {
            0 => main.push(b.s(K::OnErrorGoto("H1".into()))),
            1 => main.push(b.s(K::OnErrorGoto("H2".into()))),
            2 => main.push(b.s(K::OnErrorGoto0)),
            3 => main.push(b.s(K::OnErrorResumeNext)),
            4 => main.push(b.assign(var("X%"), bin(BinOp::Div, num(i as i64 + 1), var("Z%")))),
            _ => main.push(b.print(vec![st("t"), num(i as i64), builtin("ERR", vec![])])),
        }
    }
    main.push(b.print(vec![st("end"), builtin("ERR", vec![])]));
    main.push(b.s(K::End));
    for h in ["H1", "H2"] {
        main.push(b.s(K::Label(h.into())));
        main.push(b.print(vec![st(h), builtin("ERR", vec![])]));
        main.push(b.s(K::ResumeNext));
    }
    Prog { main, ..Default::default() }
}

pub fn handler_history_count(depth: usize) -> u64 {
    (1..=depth).map(|d| (HEVENTS as u64).pow(d as u32)).sum()
}

pub fn handler_history_at(mut idx: u64, depth: usize) -> Vec<usize> {
    for d in 1..=depth {
        let n = (HEVENTS as u64).pow(d as u32);
        if idx < n {
            let mut v = vec![0; d];
            for k in (0..d).rev() {
                v[k] = (idx % HEVENTS as u64) as usize;
                idx /= HEVENTS as u64;
            }
            return v;
        }
        idx -= n;
    }
    vec![]
}
