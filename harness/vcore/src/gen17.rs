//! C17 generators: string functions over all strings up to a length bound over {a, B, blank}
//! and all counts / positions in -1..7, as literals, variables and nested calls.

use crate::gast::*;
use crate::gen01::Snip;

pub fn strings(max_len: usize) -> Vec<String> {
    let mut out = vec![String::new()];
    let mut prev = vec![String::new()];
    for _ in 0..max_len {
        let mut next = vec![];
        for p in &prev {
            for c in ['a', 'B', ' '] {
                next.push(format!("{}{}", p, c));
            }
        }
        out.extend(next.iter().cloned());
        prev = next;
    }
    out
}

fn bracket(b: &mut B, e: Expr) -> Stmt {
    b.print(vec![st("["), e, st("]")])
}

fn snip(label: String, build: impl FnOnce(&mut B) -> Vec<Stmt>) -> Snip {
    let mut b = B::new();
    let stmts = build(&mut b);
    Snip { stmts, label, ill_typed: false }
}

/// form 0: literal arguments; form 1: arguments in variables; form 2: nested in another call
fn with_form(label: &str, form: usize, s: &str, nums: &[i64], make: &dyn Fn(Expr, Vec<Expr>) -> Expr) -> Snip {
    snip(format!("{} form{}", label, form), |b| {
        let mut stmts = vec![];
        let (se, ne): (Expr, Vec<Expr>) = if form == 1 {
            stmts.push(b.assign(var("S$"), st(s)));
            let mut ne = vec![];
            for (i, n) in nums.iter().enumerate() {
                let v = var(&format!("N{}%", i));
                stmts.push(b.assign(v.clone(), num(*n)));
                ne.push(v);
            }
            (var("S$"), ne)
        } else {
            (st(s), nums.iter().map(|n| num(*n)).collect())
        };
        let e = make(se, ne);
        let e = if form == 2 { builtin("LEN", vec![e]) } else { e };
        stmts.push(bracket(b, e));
        stmts
    })
}

pub fn cases(quick: bool) -> Vec<Snip> {
    let mut out = vec![];
    let strs = strings(if quick { 4 } else { 5 });
    let range: Vec<i64> = (-1..=7).collect();
    let forms: &[usize] = &[0, 1, 2];
    for (si, s) in strs.iter().enumerate() {
        for &n in &range {
            // literal form for every case, the other forms on a rotating third of them
            for &form in forms {
                if form != 0 && (si + n as usize + form) % 3 != 0 {
                    continue;
                }
                out.push(with_form(&format!("LEFT$({:?},{})", s, n), form, s, &[n], &|s, n| builtin("LEFT$", vec![s, n[0].clone()])));
                out.push(with_form(&format!("RIGHT$({:?},{})", s, n), form, s, &[n], &|s, n| builtin("RIGHT$", vec![s, n[0].clone()])));
                out.push(with_form(&format!("MID$({:?},{})", s, n), form, s, &[n], &|s, n| builtin("MID$", vec![s, n[0].clone()])));
            }
            let lens: Vec<i64> = if quick { vec![-1, 0, 1, 2, 5] } else { range.clone() };
            for &m in &lens {
                let form = (si + (n + m + 2) as usize) % 3;
                out.push(with_form(&format!("MID$({:?},{},{})", s, n, m), form, s, &[n, m], &|s, n| {
                    builtin("MID$", vec![s, n[0].clone(), n[1].clone()])
                }));
            }
            // LEFT$(s, n) + MID$(s, n + 1) = s
            if n >= 0 {
                let s2 = s.clone();
                out.push(snip(format!("LEFT$+MID$ equation {:?} {}", s, n), move |b| {
                    let e = bin(
                        BinOp::Eq,
                        bin(BinOp::Add, builtin("LEFT$", vec![st(&s2), num(n)]), builtin("MID$", vec![st(&s2), num(n + 1)])),
                        st(&s2),
                    );
                    vec![b.print(vec![e])]
                }));
            }
        }
        for f in ["UCASE$", "LCASE$", "LTRIM$", "RTRIM$", "LEN"] {
            let form = si % 2;
            out.push(with_form(&format!("{}({:?})", f, s), form, s, &[], &|s, _| builtin(f, vec![s])));
        }
    }
    // INSTR: haystacks and needles over {a, B} (dense in overlapping partial matches)
    let two = |max_len: usize| -> Vec<String> {
        let mut out = vec![String::new()];
        let mut prev = vec![String::new()];
        for _ in 0..max_len {
            let mut next = vec![];
            for p in &prev {
                for c in ['a', 'B'] {
                    next.push(format!("{}{}", p, c));
                }
            }
            out.extend(next.iter().cloned());
            prev = next;
        }
        out
    };
    let hay = two(if quick { 4 } else { 6 });
    let needles: Vec<String> = two(3).into_iter().filter(|s| !s.is_empty()).collect();
    for (hi, h) in hay.iter().enumerate() {
        for (ni, t) in needles.iter().enumerate() {
            let form = (hi + ni) % 2;
            let t2 = t.clone();
            out.push(with_form(&format!("INSTR({:?},{:?})", h, t), form, h, &[], &move |s, _| builtin("INSTR", vec![s, st(&t2)])));
            for n in -1..=6i64 {
                let t3 = t.clone();
                out.push(with_form(&format!("INSTR({},{:?},{:?})", n, h, t), (hi + ni + (n + 1) as usize) % 2, h, &[n], &move |s, nn| {
                    builtin("INSTR", vec![nn[0].clone(), s, st(&t3)])
                }));
            }
        }
    }
    // a blank in haystack and needle
    for (h, t) in [("a B a", " "), ("a  B", "  B"), (" ", " "), ("aB ", "B ")] {
        out.push(with_form(&format!("INSTR({:?},{:?})", h, t), 0, h, &[], &move |s, _| builtin("INSTR", vec![s, st(t)])));
    }
    // LEN(a + b) = LEN(a) + LEN(b)
    let small = strings(if quick { 2 } else { 3 });
    for a in &small {
        for bb in &small {
            let (a2, b2) = (a.clone(), bb.clone());
            out.push(snip(format!("LEN({:?}+{:?})", a, bb), move |b| {
                let l = builtin("LEN", vec![bin(BinOp::Add, st(&a2), st(&b2))]);
                let r = bin(BinOp::Add, builtin("LEN", vec![st(&a2)]), builtin("LEN", vec![st(&b2)]));
                vec![b.print(vec![l.clone(), bin(BinOp::Eq, l, r)])]
            }));
        }
    }
    // TAB is not a blank
    for f in ["LTRIM$", "RTRIM$", "UCASE$", "LCASE$"] {
        out.push(snip(format!("{} with TAB", f), move |b| {
            let s = bin(BinOp::Add, bin(BinOp::Add, builtin("CHR$", vec![num(9)]), st(" a ")), builtin("CHR$", vec![num(9)]));
            vec![b.print(vec![builtin("LEN", vec![builtin(f, vec![s])])])]
        }));
    }
    // SPACE$, STRING$
    for n in -1..=7i64 {
        out.push(snip(format!("SPACE$({})", n), move |b| vec![bracket(b, builtin("SPACE$", vec![num(n)]))]));
        out.push(snip(format!("STRING$({},32)", n), move |b| vec![bracket(b, builtin("STRING$", vec![num(n), num(32)]))]));
        out.push(snip(format!("STRING$({},\"x\")", n), move |b| vec![bracket(b, builtin("STRING$", vec![num(n), st("xy")]))]));
        out.push(snip(format!("STRING$({},\"\")", n), move |b| vec![bracket(b, builtin("STRING$", vec![num(n), st("")]))]));
        if n >= 0 {
            out.push(snip(format!("SPACE$({}) = STRING$({},32)", n, n), move |b| {
                vec![b.print(vec![
                    bin(BinOp::Eq, builtin("SPACE$", vec![num(n)]), builtin("STRING$", vec![num(n), num(32)])),
                    builtin("LEN", vec![builtin("SPACE$", vec![num(n)])]),
                ])]
            }));
        }
    }
    // characters above 127 (CHR$(200), CHR$(201)): one character each for every function. The strings are
    // built at run time and only lengths, positions and comparisons are printed.
    {
        let alphabet: [Option<i64>; 3] = [None, Some(200), Some(201)]; // None = the letter a
        let mut words: Vec<Vec<Option<i64>>> = vec![vec![]];
        let mut prev: Vec<Vec<Option<i64>>> = vec![vec![]];
        for _ in 0..(if quick { 3 } else { 4 }) {
            let mut next = vec![];
            for p in &prev {
                for c in alphabet {
                    let mut w = p.clone();
                    w.push(c);
                    next.push(w);
                }
            }
            words.extend(next.iter().cloned());
            prev = next;
        }
        let build = |w: &[Option<i64>]| -> Expr {
            let mut e: Option<Expr> = None;
            for c in w {
                let piece = match c {
                    None => st("a"),
                    Some(k) => builtin("CHR$", vec![num(*k)]),
                };
                e = Some(match e {
                    None => piece,
                    Some(x) => bin(BinOp::Add, x, piece),
                });
            }
            e.unwrap_or(st(""))
        };
        let show = |w: &[Option<i64>]| -> String { w.iter().map(|c| match c { None => "a".to_string(), Some(k) => format!("<{}>", k) }).collect() };
        for w in words.iter().filter(|w| w.iter().any(|c| c.is_some())) {
            let wv = w.clone();
            out.push(snip(format!("high characters {}", show(w)), move |b| {
                let mut stmts = vec![b.assign(var("S$"), build(&wv))];
                let s = || var("S$");
                let n = wv.len() as i64;
                let mut items = vec![builtin("LEN", vec![s()])];
                for k in 0..=n + 1 {
                    // lengths of the parts, where the part is found again, and the defining equation
                    items.push(builtin("LEN", vec![builtin("LEFT$", vec![s(), num(k)])]));
                    items.push(builtin("LEN", vec![builtin("RIGHT$", vec![s(), num(k)])]));
                    if k >= 1 {
                        items.push(builtin("LEN", vec![builtin("MID$", vec![s(), num(k)])]));
                        items.push(builtin("LEN", vec![builtin("MID$", vec![s(), num(k), num(1)])]));
                        if k <= n {
                            // (a non-empty needle)
                            items.push(builtin("INSTR", vec![s(), builtin("MID$", vec![s(), num(k), num(2)])]));
                        }
                        items.push(builtin("INSTR", vec![num(k), s(), builtin("RIGHT$", vec![s(), num(1)])]));
                    }
                    items.push(bin(BinOp::Eq, bin(BinOp::Add, builtin("LEFT$", vec![s(), num(k)]), builtin("MID$", vec![s(), num(k + 1)])), s()));
                }
                items.push(builtin("INSTR", vec![s(), st("a")]));
                items.push(builtin("INSTR", vec![s(), builtin("CHR$", vec![num(201)])]));
                items.push(builtin("LEN", vec![builtin("UCASE$", vec![s()])]));
                items.push(builtin("LEN", vec![builtin("LTRIM$", vec![bin(BinOp::Add, st(" "), s())])]));
                items.push(builtin("LEN", vec![bin(BinOp::Add, s(), s())]));
                stmts.push(b.print(items));
                stmts
            }));
        }
        out.push(snip("STRING$ / LEN with a high character".into(), |b| {
            vec![b.print(vec![
                builtin("LEN", vec![builtin("STRING$", vec![num(3), num(200)])]),
                builtin("LEN", vec![builtin("STRING$", vec![num(2), builtin("CHR$", vec![num(200)])])]),
                bin(BinOp::Eq, builtin("STRING$", vec![num(2), num(200)]), bin(BinOp::Add, builtin("CHR$", vec![num(200)]), builtin("CHR$", vec![num(200)]))),
            ])]
        }));
    }
    // longer printable-ASCII strings (the property's "random longer strings", replaced by an
    // enumerated family): position-dependent content (a cyclic walk through the 94 printable
    // characters other than the quote, so that any shift by one is visible), lengths around powers
    // of two and around 255, counts / positions from a lattice around 0, the length and 255 / 256.
    // Results are observed through their length, their ends (three characters each), where they are
    // found again, and the defining equations; nothing longer than 60 characters is printed.
    {
        let lens: Vec<usize> = if quick {
            vec![6, 8, 15, 16, 17, 33, 64, 94, 127, 128, 129, 254, 255, 256, 257, 300]
        } else {
            vec![6, 7, 8, 9, 15, 16, 17, 31, 32, 33, 63, 64, 65, 94, 95, 127, 128, 129, 200, 254, 255, 256, 257, 300, 511, 512, 513, 1000]
        };
        let offsets: &[usize] = if quick { &[0] } else { &[0, 37] };
        for &l in &lens {
            for &o in offsets {
                let text: String = (0..l)
                    .map(|i| {
                        let k = (i * 7 + o) % 94; // 7 is coprime to 94: all characters occur, neighbours differ
                        let c = 32 + k as u8;
                        (if c >= b'"' { c + 1 } else { c }) as char
                    })
                    .collect();
                let li = l as i64;
                let mut ks: Vec<i64> = vec![0, 1, 2, li / 2, li - 1, li, li + 1, 255, 256, 1000, 32767];
                ks.sort();
                ks.dedup();
                for (ki, &k) in ks.iter().enumerate() {
                    let t = text.clone();
                    out.push(snip(format!("long string len {} offset {} count {}", l, o, k), move |b| {
                        let mut stmts = vec![b.assign(var("S$"), st(&t))];
                        let s = || var("S$");
                        // the count once as an INTEGER literal, once through a typed variable
                        let kv = match ki % 4 {
                            0 => num(k),
                            1 => {
                                stmts.push(b.assign(var("K&"), num(k)));
                                var("K&")
                            }
                            2 => {
                                stmts.push(b.assign(var("K!"), num(k)));
                                var("K!")
                            }
                            _ => {
                                stmts.push(b.assign(var("K#"), bin(BinOp::Add, num(k), Expr::Num(".25#".into()))));
                                var("K#")
                            }
                        };
                        let ends = |e: Expr| -> Vec<Expr> {
                            vec![
                                builtin("LEN", vec![e.clone()]),
                                st("["),
                                builtin("LEFT$", vec![e.clone(), num(3)]),
                                st("|"),
                                builtin("RIGHT$", vec![e, num(3)]),
                                st("]"),
                            ]
                        };
                        let mut items = vec![];
                        items.extend(ends(builtin("LEFT$", vec![s(), kv.clone()])));
                        items.extend(ends(builtin("RIGHT$", vec![s(), kv.clone()])));
                        stmts.push(b.print(items));
                        if k >= 1 {
                            let mut items = vec![];
                            items.extend(ends(builtin("MID$", vec![s(), kv.clone()])));
                            for m in [0, 1, 3, li, 32767] {
                                items.extend(ends(builtin("MID$", vec![s(), kv.clone(), num(m)])));
                            }
                            stmts.push(b.print(items));
                            // where a piece of three characters is found again, from this position on
                            let mut items = vec![];
                            for j in [1, li / 2, (li - 2).max(1)] {
                                items.push(builtin("INSTR", vec![kv.clone(), s(), builtin("MID$", vec![s(), num(j), num(3)])]));
                            }
                            stmts.push(b.print(items));
                        }
                        if k <= 1000 {
                            stmts.push(b.print(vec![
                                bin(BinOp::Eq, bin(BinOp::Add, builtin("LEFT$", vec![s(), kv.clone()]), builtin("MID$", vec![s(), bin(BinOp::Add, kv.clone(), num(1))])), s()),
                                builtin("LEN", vec![bin(BinOp::Add, s(), builtin("LEFT$", vec![s(), kv.clone()]))]),
                            ]));
                        }
                        stmts
                    }));
                }
                // the whole string through the case and trim functions, printed in pieces of 60
                let t = text.clone();
                out.push(snip(format!("long string len {} offset {} case / trim", l, o), move |b| {
                    let mut stmts = vec![b.assign(var("S$"), bin(BinOp::Add, bin(BinOp::Add, st("  "), st(&t)), st("   ")))];
                    for (f, v) in [("UCASE$", "U$"), ("LCASE$", "L$"), ("LTRIM$", "T$"), ("RTRIM$", "R$")] {
                        stmts.push(b.assign(var(v), builtin(f, vec![var("S$")])));
                        stmts.push(b.print(vec![builtin("LEN", vec![var(v)])]));
                        let mut p = 1;
                        while p <= t.len() + 5 {
                            stmts.push(b.print(vec![st("["), builtin("MID$", vec![var(v), num(p as i64), num(60)]), st("]")]));
                            p += 60;
                        }
                    }
                    stmts.push(b.print(vec![
                        bin(BinOp::Eq, builtin("UCASE$", vec![var("L$")]), var("U$")),
                        bin(BinOp::Eq, builtin("LTRIM$", vec![var("R$")]), builtin("RTRIM$", vec![var("T$")])),
                        builtin("LEN", vec![bin(BinOp::Add, var("T$"), var("R$"))]),
                    ]));
                    stmts
                }));
            }
        }
        // SPACE$ / STRING$ with large counts, and their equation
        for n in [8i64, 255, 256, 257, 1000, 32767] {
            out.push(snip(format!("SPACE$({}) / STRING$({}, ...)", n, n), move |b| {
                vec![b.print(vec![
                    builtin("LEN", vec![builtin("SPACE$", vec![num(n)])]),
                    builtin("LEN", vec![builtin("STRING$", vec![num(n), num(65)])]),
                    bin(BinOp::Eq, builtin("SPACE$", vec![num(n)]), builtin("STRING$", vec![num(n), num(32)])),
                    bin(BinOp::Eq, builtin("STRING$", vec![num(n), st("A")]), builtin("STRING$", vec![num(n), num(65)])),
                    builtin("LEN", vec![builtin("LTRIM$", vec![bin(BinOp::Add, builtin("SPACE$", vec![num(n)]), st("x"))])]),
                    builtin("INSTR", vec![bin(BinOp::Add, builtin("STRING$", vec![num(n), st("A")]), st("B")), st("AB")]),
                ])]
            }));
        }
    }
    // the string (and the counts) taken from array elements with variable subscripts: a matrix cell G$(R%, C%) whose
    // neighbours G$(C%, R%), G$(R%, R%), G$(C%, C%) hold other strings, a vector cell V$(I% + 1), counts from K%(C%, R%)
    for (si, s) in ["aB a", " Ba", "aaB"].iter().enumerate() {
        for (r, c) in [(1i64, 2i64), (2, 0), (0, 3)] {
            let fill = move |b: &mut B| -> Vec<Stmt> {
                let cell = |i: i64, j: i64| Expr::Index("G$".into(), vec![num(i), num(j)]);
                vec![
                    b.assign(var("R%"), num(r)),
                    b.assign(var("C%"), num(c)),
                    b.assign(var("I%"), num(r)),
                    b.assign(cell(c, r), st("WRONG-cr")),
                    b.assign(cell(r, r), st("WRONG-rr")),
                    b.assign(cell(c, c), st("WRONG-cc")),
                    b.assign(cell(r, c), st(s)),
                    b.assign(Expr::Index("V$".into(), vec![num(r)]), st("WRONG-v")),
                    b.assign(Expr::Index("V$".into(), vec![num(r + 1)]), st(s)),
                    b.assign(Expr::Index("K%".into(), vec![num(r), num(c)]), num(7)),
                    b.assign(Expr::Index("K%".into(), vec![num(c), num(r)]), num(2)),
                ]
            };
            let g = || Expr::Index("G$".into(), vec![var("R%"), var("C%")]);
            let v = || Expr::Index("V$".into(), vec![bin(BinOp::Add, var("I%"), num(1))]);
            let k = || Expr::Index("K%".into(), vec![var("C%"), var("R%")]);
            let calls: Vec<(&str, Expr)> = vec![
                ("LEFT$(G$(R%, C%), 2)", builtin("LEFT$", vec![g(), num(2)])),
                ("RIGHT$(G$(R%, C%), K%(C%, R%))", builtin("RIGHT$", vec![g(), k()])),
                ("MID$(G$(R%, C%), K%(C%, R%))", builtin("MID$", vec![g(), k()])),
                ("MID$(G$(R%, C%), 2, K%(C%, R%))", builtin("MID$", vec![g(), num(2), k()])),
                ("INSTR(G$(R%, C%), \"B\")", builtin("INSTR", vec![g(), st("B")])),
                ("INSTR(K%(C%, R%), G$(R%, C%), \"a\")", builtin("INSTR", vec![k(), g(), st("a")])),
                ("INSTR(V$(I% + 1), G$(R%, C%))", builtin("INSTR", vec![v(), g()])),
                ("UCASE$(G$(R%, C%))", builtin("UCASE$", vec![g()])),
                ("LCASE$(V$(I% + 1))", builtin("LCASE$", vec![v()])),
                ("LTRIM$(G$(R%, C%))", builtin("LTRIM$", vec![g()])),
                ("RTRIM$(G$(R%, C%))", builtin("RTRIM$", vec![g()])),
                ("LEN(G$(R%, C%) + V$(I% + 1))", builtin("LEN", vec![bin(BinOp::Add, g(), v())])),
                ("LEFT$(G$(R%, C%), 2) + MID$(G$(R%, C%), 3)", bin(BinOp::Add, builtin("LEFT$", vec![g(), num(2)]), builtin("MID$", vec![g(), num(3)]))),
                ("STRING$(K%(C%, R%), G$(R%, C%))", builtin("STRING$", vec![k(), g()])),
            ];
            for (label, e) in calls {
                out.push(snip(format!("array-element arguments #{} ({}, {}): {}", si, r, c, label), move |b| {
                    let mut stmts = fill(b);
                    stmts.push(bracket(b, e));
                    // the elements themselves are unchanged by the call
                    stmts.push(bracket(b, Expr::Index("G$".into(), vec![num(r), num(c)])));
                    stmts.push(bracket(b, Expr::Index("G$".into(), vec![num(c), num(r)])));
                    stmts
                }));
            }
        }
    }
    // VAL(STR$(k)) = k
    let ks: Vec<i64> = if quick {
        (-32768i64..=32767).filter(|k: &i64| k % 13 == 0 || k.abs() >= 32760 || k.abs() <= 20).collect()
    } else {
        (-32768..=32767).collect()
    };
    let longs: [i64; 10] = [-2147483647, -2147483646, -65537, -65536, 65535, 65536, 100000, 16777217, 2147483646, 2147483647];
    for k in ks.into_iter().chain(longs) {
        out.push(snip(format!("VAL(STR$({}))", k), move |b| {
            let lit = if k == -32768 { bin(BinOp::Sub, num(-32767), num(1)) } else { num(k) };
            let e = builtin("VAL", vec![builtin("STR$", vec![Expr::Paren(Box::new(lit.clone()))])]);
            vec![b.print(vec![e.clone(), bin(BinOp::Eq, e, Expr::Paren(Box::new(lit)))])]
        }));
    }
    out
}
