//! What one run of the real pipeline (or of the reference semantics) is observed to do.

use std::collections::BTreeMap;

use serde::{Deserialize, Serialize};

/// How a run ended.
#[derive(Serialize, Deserialize, Clone, Debug, PartialEq, Eq, Hash)]
pub enum End {
    Normal,
    /// A BASIC-level run-time error. `rows[0]` is the row of the failing statement,
    /// the remaining rows are the active call sites, innermost first.
    RuntimeError {
        kind: String,
        code: Option<i32>,
        rows: Vec<u32>,
        cols: Vec<u32>,
    },
    ParseError {
        kind: String,
        row: u32,
        col: u32,
    },
    LintError {
        kind: String,
        row: u32,
        col: u32,
    },
    /// The implementation panicked (caught by catch_unwind).
    Panic {
        stage: String,
        file: String,
        msg: String,
    },
    /// The worker process died (stack overflow, abort, kill).
    Crash {
        signal: i32,
    },
    /// No answer within the watchdog period.
    Hang,
    /// The VM's instruction budget was exhausted.
    Budget,
}

impl End {
    pub fn class(&self) -> String {
        match self {
            End::Normal => "normal".into(),
            End::RuntimeError { kind, code, .. } => match code {
                Some(c) => format!("error{}", c),
                None => format!("error:{}", kind),
            },
            End::ParseError { kind, .. } => format!("parse:{}", kind),
            End::LintError { kind, .. } => format!("lint:{}", kind),
            End::Panic { file, msg, .. } => format!("panic@{}:{}", file, strip_digits(msg)),
            End::Crash { signal } => format!("crash:{}", signal),
            End::Hang => "hang".into(),
            End::Budget => "budget".into(),
        }
    }

    pub fn is_internal_failure(&self) -> bool {
        matches!(self, End::Panic { .. } | End::Crash { .. } | End::Hang)
    }
}

/// Replace every run of digits by `#` (panic messages carry indices, lengths, addresses).
pub fn strip_digits(s: &str) -> String {
    let mut out = String::with_capacity(s.len());
    let mut in_digits = false;
    for ch in s.chars() {
        if ch.is_ascii_digit() {
            if !in_digits {
                out.push('#');
                in_digits = true;
            }
        } else {
            in_digits = false;
            out.push(ch);
        }
    }
    if out.len() > 160 {
        let mut cut = 160;
        while !out.is_char_boundary(cut) {
            cut -= 1;
        }
        out.truncate(cut);
    }
    out
}

#[derive(Serialize, Deserialize, Clone, Debug, PartialEq, Eq, Default)]
pub struct MonSummary {
    pub instructions: u64,
    /// (pc, description) of the first typed-variable offence.
    pub type_violation: Option<(usize, String)>,
    pub type_checks: u64,
    /// value, register, var_path, by_ref, states, blocks, ret, gosub, stacktrace
    pub max_depths: [usize; 9],
    /// Statement-start depth records: each is
    /// [pc, value, register, var_path, by_ref, states, top_is_arg, blocks, ret, gosub, stacktrace, fn_pending]
    pub trace: Vec<[usize; 12]>,
    pub trace_truncated: bool,
    pub final_globals: Vec<(String, String)>,
}

#[derive(Serialize, Deserialize, Clone, Debug, PartialEq, Eq)]
pub struct Outcome {
    #[serde(with = "bytes_as_string")]
    pub stdout: Vec<u8>,
    #[serde(with = "bytes_as_string")]
    pub lpt1: Vec<u8>,
    pub files: BTreeMap<String, String>,
    pub end: End,
    pub mon: Option<MonSummary>,
}

impl Outcome {
    pub fn new(end: End) -> Self {
        Self {
            stdout: vec![],
            lpt1: vec![],
            files: BTreeMap::new(),
            end,
            mon: None,
        }
    }

    pub fn stdout_str(&self) -> String {
        latin1(&self.stdout)
    }

    pub fn lpt1_str(&self) -> String {
        latin1(&self.lpt1)
    }
}

/// Bytes shown one char per byte (all our data is 7-bit ASCII by restriction R8;
/// anything else is preserved through the Latin-1 range).
pub fn latin1(b: &[u8]) -> String {
    b.iter().map(|x| *x as char).collect()
}

pub fn unlatin1(s: &str) -> Vec<u8> {
    s.chars().map(|c| (c as u32).min(255) as u8).collect()
}

mod bytes_as_string {
    use serde::{Deserialize, Deserializer, Serializer};

    pub fn serialize<S: Serializer>(b: &Vec<u8>, s: S) -> Result<S::Ok, S::Error> {
        s.serialize_str(&super::latin1(b))
    }

    pub fn deserialize<'de, D: Deserializer<'de>>(d: D) -> Result<Vec<u8>, D::Error> {
        let s = String::deserialize(d)?;
        Ok(super::unlatin1(&s))
    }
}
