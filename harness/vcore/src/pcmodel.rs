//! C20: parser expressions over the combinator library, their enumeration, and a
//! denotational model of the documented semantics. No dependency on /repo: the
//! binding that builds the real parsers from an `E` lives in vmain.

use std::fmt;

/// Uniform value type produced by every generated parser.
#[derive(Clone, Debug, PartialEq, Eq, Default, Hash)]
pub enum Val {
    #[default]
    Unit,
    Ch(char),
    Bool(bool),
    Opt(Option<Box<Val>>),
    List(Vec<Val>),
    Pair(Box<Val>, Box<Val>),
    Mapped(Box<Val>),
}

impl Val {
    /// The predicate used by filters / mappers: does the value "start with" the letter a?
    pub fn is_a(&self) -> bool {
        match self {
            Val::Ch(c) => *c == 'a',
            Val::Pair(l, _) => l.is_a(),
            Val::List(v) => v.first().map(|x| x.is_a()).unwrap_or(false),
            Val::Opt(Some(v)) => v.is_a(),
            Val::Mapped(v) => v.is_a(),
            _ => false,
        }
    }
}

/// Error type: soft (0 = the library's default error, 1 = a custom one) or fatal.
/// `to_fatal` of Soft(k) is Fatal(10 + k) so the origin stays visible.
#[derive(Clone, Copy, Debug, PartialEq, Eq, Hash)]
pub enum TE {
    Soft(u8),
    Fatal(u8),
}

impl Default for TE {
    fn default() -> Self {
        TE::Soft(0)
    }
}

impl TE {
    pub fn fatal(self) -> TE {
        match self {
            TE::Soft(k) => TE::Fatal(10 + k),
            f => f,
        }
    }

    pub fn is_soft(self) -> bool {
        matches!(self, TE::Soft(_))
    }
}

pub const TRAILING: TE = TE::Fatal(7);

#[derive(Clone, Copy, Debug, PartialEq, Eq, Hash)]
pub enum Comb {
    Tuple,
    Left,
    Right,
}

#[derive(Clone, Copy, Debug, PartialEq, Eq, Hash)]
pub enum OkMap {
    /// Ok(Mapped(v))
    Id,
    /// soft error 1 if the value is_a, else Ok(Mapped(v))
    SoftIfA,
    /// fatal error 2 if the value is_a
    FatalIfA,
}

#[derive(Clone, Copy, Debug, PartialEq, Eq, Hash)]
pub enum ErrMap {
    /// Ok(Unit)
    ToOk,
    /// soft error 1
    ToSoft,
    /// fatal error 2
    ToFatal,
}

/// A parser expression.
#[derive(Clone, Debug, PartialEq, Eq, Hash)]
pub enum E {
    // primitives
    Read,
    PeekP,
    One(char),
    OneOfAB,
    Supply,
    FailSoft,
    FailFatal,
    // combinators
    And(Box<E>, Box<E>, Comb),
    Or(Box<E>, Box<E>),
    OrN(Vec<E>),
    Many(Box<E>, bool),
    Filter(Box<E>, bool),
    FilterMap(Box<E>),
    Peek(Box<E>),
    ToOption(Box<E>),
    OrDefault(Box<E>),
    Surround(Box<E>, Box<E>, Box<E>, bool),
    Delimited(Box<E>, Box<E>, bool),
    Seq2(Box<E>, Box<E>),
    Seq3(Box<E>, Box<E>, Box<E>),
    /// left.then_with_in_context(ctx_parser(), tuple)
    ThenWithCtx(Box<E>),
    /// left.then_with_in_context(ctx_parser().and_tuple(right.no_context()), tuple)
    ThenWithCtxAnd(Box<E>, Box<E>),
    /// left.map(is_a).then_with_in_context(IifCtxParser(l, r), pair)
    ThenWithIif(Box<E>, Box<E>, Box<E>),
    /// ManyCtxParser over IifCtxParser(l, r): context = is_a(previous element), initially false
    ManyCtx(Box<E>, Box<E>, bool),
    AndThen(Box<E>, OkMap),
    AndThenErr(Box<E>, ErrMap),
    Map(Box<E>),
    WithSoftErr(Box<E>),
    OrFail(Box<E>),
    MapFatalErr(Box<E>),
    ToFatal(Box<E>),
    Lazy(Box<E>),
    Boxed(Box<E>),
    /// p.map(|v| if is_a(v) { one('b') } else { read }).flatten()
    Flatten(Box<E>),
}

impl fmt::Display for E {
    fn fmt(&self, f: &mut fmt::Formatter<'_>) -> fmt::Result {
        match self {
            E::Read => write!(f, "read"),
            E::PeekP => write!(f, "peek_p"),
            E::One(c) => write!(f, "one({})", c),
            E::OneOfAB => write!(f, "one_of(ab)"),
            E::Supply => write!(f, "supplier"),
            E::FailSoft => write!(f, "err_soft"),
            E::FailFatal => write!(f, "err_fatal"),
            E::And(l, r, c) => write!(f, "and_{:?}({}, {})", c, l, r),
            E::Or(l, r) => write!(f, "or({}, {})", l, r),
            E::OrN(v) => {
                write!(f, "OrParser[")?;
                for (i, e) in v.iter().enumerate() {
                    if i > 0 {
                        write!(f, ", ")?;
                    }
                    write!(f, "{}", e)?;
                }
                write!(f, "]")
            }
            E::Many(p, n) => write!(f, "{}({})", if *n { "many_allow_none" } else { "many" }, p),
            E::Filter(p, a) => write!(f, "filter_{}({})", if *a { "is_a" } else { "not_a" }, p),
            E::FilterMap(p) => write!(f, "filter_map_is_a({})", p),
            E::Peek(p) => write!(f, "peek({})", p),
            E::ToOption(p) => write!(f, "to_option({})", p),
            E::OrDefault(p) => write!(f, "or_default({})", p),
            E::Surround(l, m, r, mand) => write!(
                f,
                "surround_{}({}, {}, {})",
                if *mand { "mandatory" } else { "optional" },
                l,
                m,
                r
            ),
            E::Delimited(p, d, miss) => write!(
                f,
                "{}({}, {})",
                if *miss { "delimited_allow_missing" } else { "delimited" },
                p,
                d
            ),
            E::Seq2(a, b) => write!(f, "seq2({}, {})", a, b),
            E::Seq3(a, b, c) => write!(f, "seq3({}, {}, {})", a, b, c),
            E::ThenWithCtx(l) => write!(f, "then_with_ctx({})", l),
            E::ThenWithCtxAnd(l, r) => write!(f, "then_with_ctx_and({}, {})", l, r),
            E::ThenWithIif(p, l, r) => write!(f, "then_with_iif({}, {}, {})", p, l, r),
            E::ManyCtx(l, r, n) => write!(
                f,
                "many_ctx{}({}, {})",
                if *n { "_allow_none" } else { "" },
                l,
                r
            ),
            E::AndThen(p, m) => write!(f, "and_then_{:?}({})", m, p),
            E::AndThenErr(p, m) => write!(f, "and_then_err_{:?}({})", m, p),
            E::Map(p) => write!(f, "map({})", p),
            E::WithSoftErr(p) => write!(f, "with_soft_err({})", p),
            E::OrFail(p) => write!(f, "or_fail({})", p),
            E::MapFatalErr(p) => write!(f, "map_fatal_err({})", p),
            E::ToFatal(p) => write!(f, "to_fatal({})", p),
            E::Lazy(p) => write!(f, "lazy({})", p),
            E::Boxed(p) => write!(f, "boxed({})", p),
            E::Flatten(p) => write!(f, "flatten({})", p),
        }
    }
}

impl E {
    /// The name of the outermost combinator (for coverage bookkeeping).
    pub fn head(&self) -> &'static str {
        match self {
            E::Read => "read_p",
            E::PeekP => "peek_p",
            E::One(_) => "one_p",
            E::OneOfAB => "one_of_p",
            E::Supply => "supplier",
            E::FailSoft => "err_supplier(soft)",
            E::FailFatal => "err_supplier(fatal)",
            E::And(..) => "and",
            E::Or(..) => "or",
            E::OrN(..) => "OrParser",
            E::Many(_, false) => "many",
            E::Many(_, true) => "many_allow_none",
            E::Filter(..) => "filter",
            E::FilterMap(..) => "filter_map",
            E::Peek(..) => "peek",
            E::ToOption(..) => "to_option",
            E::OrDefault(..) => "or_default",
            E::Surround(_, _, _, false) => "surround(optional)",
            E::Surround(_, _, _, true) => "surround(mandatory)",
            E::Delimited(_, _, false) => "delimited_by",
            E::Delimited(_, _, true) => "delimited_by_allow_missing",
            E::Seq2(..) => "seq2",
            E::Seq3(..) => "seq3",
            E::ThenWithCtx(..) => "then_with_in_context+ctx_parser",
            E::ThenWithCtxAnd(..) => "then_with_in_context+ctx_parser+no_context",
            E::ThenWithIif(..) => "then_with_in_context+IifCtxParser",
            E::ManyCtx(..) => "ManyCtxParser",
            E::AndThen(..) => "and_then",
            E::AndThenErr(..) => "and_then_err",
            E::Map(..) => "map",
            E::WithSoftErr(..) => "with_soft_err",
            E::OrFail(..) => "or_fail",
            E::MapFatalErr(..) => "map_fatal_err",
            E::ToFatal(..) => "to_fatal",
            E::Lazy(..) => "lazy",
            E::Boxed(..) => "boxed",
            E::Flatten(..) => "flatten",
        }
    }

    /// Does the expression contain a documented non-rewinding mapper that can fail softly?
    pub fn has_non_rewinding_mapper(&self) -> bool {
        let mut found = false;
        self.walk(&mut |e| {
            if matches!(
                e,
                E::AndThen(_, OkMap::SoftIfA) | E::AndThenErr(_, ErrMap::ToSoft) | E::Flatten(_)
            ) {
                found = true;
            }
        });
        found
    }

    pub fn walk(&self, f: &mut dyn FnMut(&E)) {
        f(self);
        match self {
            E::Read | E::PeekP | E::One(_) | E::OneOfAB | E::Supply | E::FailSoft | E::FailFatal => {}
            E::And(a, b, _)
            | E::Or(a, b)
            | E::Delimited(a, b, _)
            | E::Seq2(a, b)
            | E::ThenWithCtxAnd(a, b)
            | E::ManyCtx(a, b, _) => {
                a.walk(f);
                b.walk(f);
            }
            E::OrN(v) => {
                for e in v {
                    e.walk(f);
                }
            }
            E::Surround(a, b, c, _) | E::Seq3(a, b, c) | E::ThenWithIif(a, b, c) => {
                a.walk(f);
                b.walk(f);
                c.walk(f);
            }
            E::Many(p, _)
            | E::Filter(p, _)
            | E::FilterMap(p)
            | E::Peek(p)
            | E::ToOption(p)
            | E::OrDefault(p)
            | E::ThenWithCtx(p)
            | E::AndThen(p, _)
            | E::AndThenErr(p, _)
            | E::Map(p)
            | E::WithSoftErr(p)
            | E::OrFail(p)
            | E::MapFatalErr(p)
            | E::ToFatal(p)
            | E::Lazy(p)
            | E::Boxed(p)
            | E::Flatten(p) => p.walk(f),
        }
    }
}

// ---------------------------------------------------------------------------
// Enumeration: depth-1 = leaves; depth d = every template applied to every
// expression of depth d-1 (each template has exactly one deep operand, the
// other operands are leaves), so depth is exact and nothing repeats.
// ---------------------------------------------------------------------------

pub fn leaves() -> Vec<E> {
    vec![
        E::One('a'),
        E::One('b'),
        E::Read,
        E::PeekP,
        E::OneOfAB,
        E::Supply,
        E::FailSoft,
        E::FailFatal,
    ]
}

/// The smaller leaf set used for the second and third operand of ternary combinators.
pub fn small_leaves() -> Vec<E> {
    vec![E::One('a'), E::One('b'), E::FailSoft]
}

/// A template: a closure-free description of "combinator with a hole".
#[derive(Clone, Debug)]
pub struct Tpl {
    pub name: String,
    build: TplKind,
}

#[derive(Clone, Debug)]
enum TplKind {
    Unary(fn(Box<E>) -> E),
    /// binary combinator; `deep_first`: the hole is the first operand
    Binary(fn(Box<E>, Box<E>) -> E, E, bool),
    /// ternary combinator; hole position 0..3, the other two operands given
    Ternary(fn(Box<E>, Box<E>, Box<E>) -> E, E, E, u8),
}

impl Tpl {
    pub fn apply(&self, hole: E) -> E {
        let h = Box::new(hole);
        match &self.build {
            TplKind::Unary(f) => f(h),
            TplKind::Binary(f, other, deep_first) => {
                if *deep_first {
                    f(h, Box::new(other.clone()))
                } else {
                    f(Box::new(other.clone()), h)
                }
            }
            TplKind::Ternary(f, x, y, pos) => {
                let (x, y) = (Box::new(x.clone()), Box::new(y.clone()));
                match pos {
                    0 => f(h, x, y),
                    1 => f(x, h, y),
                    _ => f(x, y, h),
                }
            }
        }
    }
}

pub fn templates() -> Vec<Tpl> {
    let mut t: Vec<Tpl> = vec![];
    let unary: Vec<(&str, fn(Box<E>) -> E)> = vec![
        ("many", |p| E::Many(p, false)),
        ("many_allow_none", |p| E::Many(p, true)),
        ("filter_is_a", |p| E::Filter(p, true)),
        ("filter_not_a", |p| E::Filter(p, false)),
        ("filter_map", |p| E::FilterMap(p)),
        ("peek", |p| E::Peek(p)),
        ("to_option", |p| E::ToOption(p)),
        ("or_default", |p| E::OrDefault(p)),
        ("and_then_id", |p| E::AndThen(p, OkMap::Id)),
        ("and_then_soft", |p| E::AndThen(p, OkMap::SoftIfA)),
        ("and_then_fatal", |p| E::AndThen(p, OkMap::FatalIfA)),
        ("and_then_err_ok", |p| E::AndThenErr(p, ErrMap::ToOk)),
        ("and_then_err_soft", |p| E::AndThenErr(p, ErrMap::ToSoft)),
        ("and_then_err_fatal", |p| E::AndThenErr(p, ErrMap::ToFatal)),
        ("map", |p| E::Map(p)),
        ("with_soft_err", |p| E::WithSoftErr(p)),
        ("or_fail", |p| E::OrFail(p)),
        ("map_fatal_err", |p| E::MapFatalErr(p)),
        ("to_fatal", |p| E::ToFatal(p)),
        ("lazy", |p| E::Lazy(p)),
        ("boxed", |p| E::Boxed(p)),
        ("flatten", |p| E::Flatten(p)),
        ("then_with_ctx", |p| E::ThenWithCtx(p)),
    ];
    for (name, f) in unary {
        t.push(Tpl {
            name: name.to_string(),
            build: TplKind::Unary(f),
        });
    }
    let binary: Vec<(&str, fn(Box<E>, Box<E>) -> E)> = vec![
        ("and_tuple", |a, b| E::And(a, b, Comb::Tuple)),
        ("and_keep_left", |a, b| E::And(a, b, Comb::Left)),
        ("and_keep_right", |a, b| E::And(a, b, Comb::Right)),
        ("or", |a, b| E::Or(a, b)),
        ("OrParser2", |a, b| E::OrN(vec![*a, *b])),
        ("delimited", |a, b| E::Delimited(a, b, false)),
        ("delimited_allow_missing", |a, b| E::Delimited(a, b, true)),
        ("seq2", |a, b| E::Seq2(a, b)),
        ("then_with_ctx_and", |a, b| E::ThenWithCtxAnd(a, b)),
        ("many_ctx", |a, b| E::ManyCtx(a, b, false)),
        ("many_ctx_allow_none", |a, b| E::ManyCtx(a, b, true)),
    ];
    for (name, f) in binary {
        for other in leaves() {
            for deep_first in [true, false] {
                t.push(Tpl {
                    name: format!("{}[{} {}]", name, if deep_first { "_," } else { ",_" }, other),
                    build: TplKind::Binary(f, other.clone(), deep_first),
                });
            }
        }
    }
    let ternary: Vec<(&str, fn(Box<E>, Box<E>, Box<E>) -> E)> = vec![
        ("surround_optional", |a, b, c| E::Surround(a, b, c, false)),
        ("surround_mandatory", |a, b, c| E::Surround(a, b, c, true)),
        ("seq3", |a, b, c| E::Seq3(a, b, c)),
        ("OrParser3", |a, b, c| E::OrN(vec![*a, *b, *c])),
        ("then_with_iif", |a, b, c| E::ThenWithIif(a, b, c)),
    ];
    for (name, f) in ternary {
        for x in small_leaves() {
            for y in small_leaves() {
                for pos in 0..3u8 {
                    t.push(Tpl {
                        name: format!("{}[{} {} {}]", name, pos, x, y),
                        build: TplKind::Ternary(f, x.clone(), y.clone(), pos),
                    });
                }
            }
        }
    }
    t
}

pub struct Space {
    pub leaves: Vec<E>,
    pub templates: Vec<Tpl>,
}

impl Space {
    pub fn new() -> Self {
        Self {
            leaves: leaves(),
            templates: templates(),
        }
    }

    /// Number of expressions of exactly this depth.
    pub fn count(&self, depth: u32) -> u64 {
        let mut n = self.leaves.len() as u64;
        for _ in 1..depth {
            n = n.saturating_mul(self.templates.len() as u64);
        }
        n
    }

    /// The idx-th expression of exactly this depth. Index order: the deep operand varies fastest.
    pub fn nth(&self, depth: u32, idx: u64) -> E {
        if depth <= 1 {
            return self.leaves[idx as usize].clone();
        }
        let sub = self.count(depth - 1);
        let t = (idx / sub) as usize;
        let c = idx % sub;
        self.templates[t].apply(self.nth(depth - 1, c))
    }
}

impl Default for Space {
    fn default() -> Self {
        Self::new()
    }
}

// ---------------------------------------------------------------------------
// The denotational model.
// ---------------------------------------------------------------------------

#[derive(Clone, Debug, PartialEq, Eq)]
pub enum R {
    Ok(Val, usize),
    /// soft failure: error value and the position afterwards
    Soft(TE, usize),
    /// fatal failure (the documentation says nothing about the position afterwards)
    Fatal(TE),
    /// the documented precondition of a repetition is violated (an element or
    /// delimiter succeeds without consuming): the pair is not run
    Bottom,
}

pub struct Model<'a> {
    pub input: &'a [char],
    /// some sub-parser consumed input at some point
    pub consumed: bool,
    /// a documented non-rewinding mapper failed softly after input had been consumed
    pub non_rewinding_soft: bool,
    steps: u32,
}

impl<'a> Model<'a> {
    pub fn new(input: &'a [char]) -> Self {
        Self {
            input,
            consumed: false,
            non_rewinding_soft: false,
            steps: 0,
        }
    }

    fn err(&self, e: TE, pos: usize) -> R {
        if e.is_soft() { R::Soft(e, pos) } else { R::Fatal(e) }
    }

    pub fn eval(&mut self, e: &E, pos: usize) -> R {
        self.steps += 1;
        if self.steps > 20_000 {
            return R::Bottom;
        }
        match e {
            E::Read => {
                if pos >= self.input.len() {
                    R::Soft(TE::default(), pos)
                } else {
                    self.consumed = true;
                    R::Ok(Val::Ch(self.input[pos]), pos + 1)
                }
            }
            E::PeekP => {
                if pos >= self.input.len() {
                    R::Soft(TE::default(), pos)
                } else {
                    R::Ok(Val::Ch(self.input[pos]), pos)
                }
            }
            E::One(c) => {
                if pos < self.input.len() && self.input[pos] == *c {
                    self.consumed = true;
                    R::Ok(Val::Ch(*c), pos + 1)
                } else {
                    if pos < self.input.len() {
                        self.consumed = true;
                    }
                    R::Soft(TE::default(), pos)
                }
            }
            E::OneOfAB => {
                if pos < self.input.len() && (self.input[pos] == 'a' || self.input[pos] == 'b') {
                    self.consumed = true;
                    R::Ok(Val::Ch(self.input[pos]), pos + 1)
                } else {
                    if pos < self.input.len() {
                        self.consumed = true;
                    }
                    R::Soft(TE::default(), pos)
                }
            }
            E::Supply => R::Ok(Val::Ch('x'), pos),
            E::FailSoft => R::Soft(TE::Soft(1), pos),
            E::FailFatal => R::Fatal(TE::Fatal(1)),
            E::And(l, r, comb) => match self.eval(l, pos) {
                R::Ok(v1, p1) => match self.eval(r, p1) {
                    R::Ok(v2, p2) => R::Ok(
                        match comb {
                            Comb::Tuple => Val::Pair(Box::new(v1), Box::new(v2)),
                            Comb::Left => v1,
                            Comb::Right => v2,
                        },
                        p2,
                    ),
                    // "If the right side fails with a soft error, parsing of the left side is undone."
                    R::Soft(err, _) => R::Soft(err, pos),
                    other => other,
                },
                other => other,
            },
            // choice: the first alternative that succeeds *from the original position*
            E::Or(l, r) => match self.eval(l, pos) {
                R::Soft(_, _) => self.eval(r, pos),
                other => other,
            },
            E::OrN(ps) => {
                for (i, p) in ps.iter().enumerate() {
                    let last = i + 1 == ps.len();
                    match self.eval(p, pos) {
                        R::Soft(err, p2) => {
                            if last {
                                return R::Soft(err, p2);
                            }
                        }
                        other => return other,
                    }
                }
                R::Bottom
            }
            E::Many(p, allow_none) => {
                let mut items = vec![];
                let mut cur = pos;
                loop {
                    match self.eval(p, cur) {
                        R::Ok(v, p2) => {
                            if p2 <= cur {
                                return R::Bottom;
                            }
                            items.push(v);
                            cur = p2;
                        }
                        R::Soft(err, p2) => {
                            if items.is_empty() {
                                return if *allow_none {
                                    R::Ok(Val::default(), p2)
                                } else {
                                    R::Soft(err, p2)
                                };
                            }
                            return R::Ok(Val::List(items), p2);
                        }
                        other => return other,
                    }
                }
            }
            E::Filter(p, want_a) => match self.eval(p, pos) {
                R::Ok(v, p2) => {
                    if v.is_a() == *want_a {
                        R::Ok(v, p2)
                    } else {
                        R::Soft(TE::default(), pos)
                    }
                }
                other => other,
            },
            E::FilterMap(p) => match self.eval(p, pos) {
                R::Ok(v, p2) => {
                    if v.is_a() {
                        R::Ok(Val::Mapped(Box::new(v)), p2)
                    } else {
                        R::Soft(TE::default(), pos)
                    }
                }
                other => other,
            },
            E::Peek(p) => match self.eval(p, pos) {
                R::Ok(v, _) => R::Ok(v, pos),
                other => other,
            },
            E::ToOption(p) => match self.eval(p, pos) {
                R::Ok(v, p2) => R::Ok(Val::Opt(Some(Box::new(v))), p2),
                R::Soft(_, p2) => R::Ok(Val::Opt(None), p2),
                other => other,
            },
            E::OrDefault(p) => match self.eval(p, pos) {
                R::Soft(_, p2) => R::Ok(Val::default(), p2),
                other => other,
            },
            E::Surround(l, m, r, mandatory) => {
                let mut cur = pos;
                match self.eval(l, cur) {
                    R::Ok(_, p2) => cur = p2,
                    R::Soft(err, p2) => {
                        if *mandatory {
                            // "If the left boundary is missing, a soft error is returned."
                            return R::Soft(err, p2);
                        }
                        cur = p2;
                    }
                    other => return other,
                }
                let value = match self.eval(m, cur) {
                    R::Ok(v, p2) => {
                        cur = p2;
                        v
                    }
                    R::Soft(err, _) => {
                        return if *mandatory {
                            // "If the main content is missing, a fatal error is returned."
                            R::Fatal(err.fatal())
                        } else {
                            // "a soft error is returned, and the left boundary is reverted"
                            R::Soft(err, pos)
                        };
                    }
                    R::Fatal(err) => return R::Fatal(err.fatal()),
                    R::Bottom => return R::Bottom,
                };
                match self.eval(r, cur) {
                    R::Ok(_, p2) => cur = p2,
                    R::Soft(err, p2) => {
                        if *mandatory {
                            // "If the right boundary is missing, a fatal error is returned."
                            return R::Fatal(err.fatal());
                        }
                        cur = p2;
                    }
                    R::Fatal(err) => return R::Fatal(err.fatal()),
                    R::Bottom => return R::Bottom,
                }
                R::Ok(value, cur)
            }
            E::Delimited(p, d, allow_missing) => {
                let mut items: Vec<Val> = vec![];
                let mut cur = pos;
                #[derive(PartialEq)]
                enum Last {
                    Nothing,
                    Value,
                    Delimiter,
                }
                let mut last = Last::Nothing;
                loop {
                    let round_start = cur;
                    let had_value = match self.eval(p, cur) {
                        R::Ok(v, p2) => {
                            items.push(if *allow_missing {
                                Val::Opt(Some(Box::new(v)))
                            } else {
                                v
                            });
                            cur = p2;
                            last = Last::Value;
                            true
                        }
                        R::Soft(_, p2) => {
                            cur = p2;
                            false
                        }
                        other => return other,
                    };
                    match self.eval(d, cur) {
                        R::Ok(_, p2) => {
                            if !had_value {
                                if *allow_missing {
                                    items.push(Val::Opt(None));
                                } else {
                                    return R::Fatal(TRAILING);
                                }
                            }
                            cur = p2;
                            last = Last::Delimiter;
                            if cur <= round_start {
                                // element + delimiter matched without consuming: not a list
                                return R::Bottom;
                            }
                        }
                        R::Soft(_, p2) => {
                            cur = p2;
                            break;
                        }
                        other => return other,
                    }
                }
                match last {
                    Last::Nothing => R::Soft(TE::default(), cur),
                    Last::Value => R::Ok(Val::List(items), cur),
                    Last::Delimiter => R::Fatal(TRAILING),
                }
            }
            E::Seq2(a, b) => match self.eval(a, pos) {
                R::Ok(v1, p1) => match self.eval(b, p1) {
                    R::Ok(v2, p2) => R::Ok(Val::Pair(Box::new(v1), Box::new(v2)), p2),
                    R::Soft(err, _) | R::Fatal(err) => R::Fatal(err.fatal()),
                    R::Bottom => R::Bottom,
                },
                other => other,
            },
            E::Seq3(a, b, c) => match self.eval(a, pos) {
                R::Ok(v1, p1) => match self.eval(b, p1) {
                    R::Ok(v2, p2) => match self.eval(c, p2) {
                        R::Ok(v3, p3) => R::Ok(
                            Val::Pair(
                                Box::new(v1),
                                Box::new(Val::Pair(Box::new(v2), Box::new(v3))),
                            ),
                            p3,
                        ),
                        R::Soft(err, _) | R::Fatal(err) => R::Fatal(err.fatal()),
                        R::Bottom => R::Bottom,
                    },
                    R::Soft(err, _) | R::Fatal(err) => R::Fatal(err.fatal()),
                    R::Bottom => R::Bottom,
                },
                other => other,
            },
            E::ThenWithCtx(l) => match self.eval(l, pos) {
                R::Ok(v, p1) => R::Ok(Val::Pair(Box::new(v.clone()), Box::new(v)), p1),
                other => other,
            },
            E::ThenWithCtxAnd(l, r) => match self.eval(l, pos) {
                R::Ok(v, p1) => match self.eval(r, p1) {
                    R::Ok(v2, p2) => R::Ok(
                        Val::Pair(
                            Box::new(v.clone()),
                            Box::new(Val::Pair(Box::new(v), Box::new(v2))),
                        ),
                        p2,
                    ),
                    // "The right-side parser is treated as a 'complete' parser, i.e. soft errors will be converted to fatal."
                    R::Soft(err, _) | R::Fatal(err) => R::Fatal(err.fatal()),
                    R::Bottom => R::Bottom,
                },
                other => other,
            },
            E::ThenWithIif(p, l, r) => match self.eval(p, pos) {
                R::Ok(v, p1) => {
                    let flag = v.is_a();
                    match self.eval(if flag { l } else { r }, p1) {
                        R::Ok(v2, p2) => {
                            R::Ok(Val::Pair(Box::new(Val::Bool(flag)), Box::new(v2)), p2)
                        }
                        R::Soft(err, _) | R::Fatal(err) => R::Fatal(err.fatal()),
                        R::Bottom => R::Bottom,
                    }
                }
                other => other,
            },
            E::ManyCtx(l, r, allow_none) => {
                let mut items = vec![];
                let mut cur = pos;
                let mut flag = false;
                loop {
                    match self.eval(if flag { l } else { r }, cur) {
                        R::Ok(v, p2) => {
                            if p2 <= cur {
                                return R::Bottom;
                            }
                            flag = v.is_a();
                            items.push(v);
                            cur = p2;
                        }
                        R::Soft(err, p2) => {
                            if items.is_empty() {
                                return if *allow_none {
                                    R::Ok(Val::default(), p2)
                                } else {
                                    R::Soft(err, p2)
                                };
                            }
                            return R::Ok(Val::List(items), p2);
                        }
                        other => return other,
                    }
                }
            }
            E::AndThen(p, m) => match self.eval(p, pos) {
                R::Ok(v, p2) => match m {
                    OkMap::Id => R::Ok(Val::Mapped(Box::new(v)), p2),
                    OkMap::SoftIfA => {
                        if v.is_a() {
                            // documented: the input is not backtracked
                            if p2 != pos {
                                self.non_rewinding_soft = true;
                            }
                            R::Soft(TE::Soft(1), p2)
                        } else {
                            R::Ok(Val::Mapped(Box::new(v)), p2)
                        }
                    }
                    OkMap::FatalIfA => {
                        if v.is_a() {
                            R::Fatal(TE::Fatal(2))
                        } else {
                            R::Ok(Val::Mapped(Box::new(v)), p2)
                        }
                    }
                },
                other => other,
            },
            E::AndThenErr(p, m) => match self.eval(p, pos) {
                R::Soft(_, p2) => match m {
                    ErrMap::ToOk => R::Ok(Val::Unit, p2),
                    ErrMap::ToSoft => {
                        if p2 != pos {
                            self.non_rewinding_soft = true;
                        }
                        R::Soft(TE::Soft(1), p2)
                    }
                    ErrMap::ToFatal => R::Fatal(TE::Fatal(2)),
                },
                other => other,
            },
            E::Map(p) => match self.eval(p, pos) {
                R::Ok(v, p2) => R::Ok(Val::Mapped(Box::new(v)), p2),
                other => other,
            },
            E::WithSoftErr(p) => match self.eval(p, pos) {
                R::Soft(_, p2) => R::Soft(TE::Soft(1), p2),
                other => other,
            },
            E::OrFail(p) => match self.eval(p, pos) {
                R::Soft(_, _) => R::Fatal(TE::Fatal(2)),
                other => other,
            },
            // "If the parser returns a soft error, the error is returned as-is.
            //  If the parser returns a fatal error, it is replaced by the given error."
            E::MapFatalErr(p) => match self.eval(p, pos) {
                R::Fatal(_) => R::Fatal(TE::Fatal(3)),
                other => other,
            },
            E::ToFatal(p) => match self.eval(p, pos) {
                R::Soft(err, _) => R::Fatal(err.fatal()),
                other => other,
            },
            E::Lazy(p) | E::Boxed(p) => self.eval(p, pos),
            E::Flatten(p) => match self.eval(p, pos) {
                R::Ok(v, p2) => {
                    let inner = if v.is_a() { E::One('b') } else { E::Read };
                    self.eval(&inner, p2)
                }
                other => other,
            },
        }
    }
}

/// All strings over {a, b, c} of length <= max_len, shortest first.
pub fn inputs(max_len: usize) -> Vec<Vec<char>> {
    let mut out: Vec<Vec<char>> = vec![vec![]];
    let mut prev: Vec<Vec<char>> = vec![vec![]];
    for _ in 0..max_len {
        let mut next = vec![];
        for p in &prev {
            for c in ['a', 'b', 'c'] {
                let mut q = p.clone();
                q.push(c);
                next.push(q);
            }
        }
        out.extend(next.iter().cloned());
        prev = next;
    }
    out
}
