//! Statement templates with operand slots, and a menu of operand shapes.
//! Every template is instantiated with every menu entry in every slot (all
//! combinations for up to `max_free` slots varied at once, the remaining slots
//! keeping their default). Used by C07 (totality of parse + lint), C08
//! (accepted programs run to a BASIC-level outcome) and C12 (soundness).

/// Operand shapes. `{}` style: plain text pasted into a slot.
pub const OPERANDS: &[&str] = &[
    "A", "A$", "A%", "B#", "A(1)", "A$(1)", "R.F", "R", "CHR", "CHR$(65)", "LEN", "LEN(A$)", "1", "1.5",
    "70000", "\"s\"", "(1)", "(A$)", "-A", "A + 1", "A$ + \"x\"", "F(1)", "G$(\"x\")", "ERR", "UCASE$(5)", "",
    "A(1).F", "R.S",
    // whole arrays, and undefined functions of both kinds
    "A()", "A$()", "NOF(1)", "NOF$(1)",
    // property chains
    "A(1).F.G", "R.F.G",
    // whole arrays in parentheses
    "(A())", "(A$())",
];

/// Declarations placed before every instantiated template, so that the names of
/// the operand menu resolve to an array, a record, a function, etc.
pub const HEADER: &str = "TYPE T\n  F AS INTEGER\n  S AS STRING * 3\nEND TYPE\nDECLARE FUNCTION F (X)\nDECLARE FUNCTION G$ (X$)\nDIM R AS T\nDIM A(5)\nDIM A$(5)\n";

pub const FOOTER: &str = "END\nL1:\nRETURN\nFUNCTION F (X)\n  F = X\nEND FUNCTION\nFUNCTION G$ (X$)\n  G$ = X$\nEND FUNCTION\nSUB P (X)\nEND SUB\nSUB Q (X$, Y%)\nEND SUB\nSUB PA (X())\nEND SUB\nSUB PAS (X$())\nEND SUB\nSUB PAI (X%())\nEND SUB\n";

/// Templates: `@` marks a slot; the default filling of each slot follows after `|`, comma separated.
pub const TEMPLATES: &[&str] = &[
    "@ = @|A,1",
    "LET @ = @|A,1",
    "PRINT @; @|1,1",
    "PRINT @, @;|1,\"s\"",
    "LPRINT @|1",
    "PRINT USING @; @|\"##\",1",
    "IF @ THEN @ = @|A,A,1",
    "IF @ THEN\nPRINT 1\nELSEIF @ THEN\nPRINT 2\nEND IF|A,A",
    "WHILE @\nWEND|0",
    "DO WHILE @\nLOOP|0",
    "DO\nLOOP UNTIL @|1",
    "FOR @ = @ TO @\nNEXT|I,1,2",
    "FOR I = @ TO @ STEP @\nNEXT I|1,2,1",
    "FOR @ = 1 TO 2\nNEXT @|I,I",
    "SELECT CASE @\nCASE @\nPRINT 1\nEND SELECT|A,1",
    "SELECT CASE @\nCASE @ TO @\nPRINT 1\nCASE IS > @\nPRINT 2\nEND SELECT|A,1,2,3",
    "DIM Z(@ TO @)|1,2",
    "DIM @|Z",
    "DIM @ AS INTEGER|Z",
    "DIM @ AS T|Z",
    "DIM @ AS STRING * 4|Z",
    "REDIM Z(@)|3",
    "CONST Z = @|1",
    "CONST @ = 1|Z",
    "INPUT @|A",
    "INPUT @, @|A,A$",
    "LINE INPUT @|A$",
    "READ @|A",
    "DATA 1\nREAD @, @|A,A$",
    "GOTO @|L1",
    "GOSUB @|L1",
    "ON ERROR GOTO @|L1",
    "RESUME @|NEXT",
    "P @|1",
    "CALL P(@)|1",
    "Q @, @|\"x\",1",
    "PRINT F(@)|1",
    "PRINT G$(@)|\"x\"",
    "PRINT LEN(@)|A$",
    "PRINT LEFT$(@, @)|\"abc\",1",
    "PRINT MID$(@, @, @)|\"abc\",1,1",
    "PRINT INSTR(@, @)|\"abc\",\"b\"",
    "PRINT STRING$(@, @)|2,\"x\"",
    "PRINT CHR$(@); STR$(@); VAL(@)|65,1,\"1\"",
    "PRINT UCASE$(@); LTRIM$(@); SPACE$(@)|\"a\",\"a\",1",
    "PRINT LBOUND(@); UBOUND(@, @)|A,A,1",
    "PRINT VARPTR(@); VARSEG(@)|A,A",
    "PRINT PEEK(@)|VARPTR(A)",
    "PRINT CVD(@); MKD$(@)|\"12345678\",1",
    "PRINT EOF(@)|1",
    "PRINT ENVIRON$(@)|\"X\"",
    "OPEN @ FOR OUTPUT AS #@|\"f.txt\",1",
    "OPEN @ FOR RANDOM AS #1 LEN = @|\"f.txt\",4",
    "CLOSE #@|1",
    "OPEN \"f.txt\" FOR OUTPUT AS #1\nPRINT #@, @\nCLOSE|1,1",
    "OPEN \"f.txt\" FOR OUTPUT AS #1\nCLOSE\nOPEN \"f.txt\" FOR INPUT AS #1\nINPUT #1, @\nLINE INPUT #1, @|A,A$",
    "OPEN \"f.txt\" FOR RANDOM AS #1 LEN = 4\nFIELD #1, @ AS @\nLSET @ = @\nPUT #1, @\nGET #1, @|4,A$,A$,\"x\",1,1",
    "DEF SEG = @|0",
    "POKE @, @|VARPTR(A%),1",
    "LOCATE @, @|1,1",
    "COLOR @, @|1,1",
    "WIDTH @, @|80,25",
    "VIEW PRINT @ TO @|1,2",
    "CLS @|0",
    "NAME @ AS @|\"a\",\"b\"",
    "KILL @|\"a\"",
    "ENVIRON @|\"A=B\"",
    "R.F = @|1",
    "R.S = @|\"x\"",
    "A(@) = @|1,1",
    "A$(@) = @|1,\"x\"",
    "SWAP @, @|A,A",
    // the number of subscripts differs from the number of dimensions
    "PRINT A(@, @)|1,1",
    "A(@, @) = 1|1,1",
    "DIM ZZ(2, 2)\nPRINT ZZ(@)|1",
    "DIM ZZ(2, 2)\nZZ(@, @, @) = 1|1,1,1",
    // FIELD wider than the record
    "OPEN \"f.txt\" FOR RANDOM AS #1 LEN = 4\nFIELD #1, 6 AS FV$\nPUT #1, @\nGET #1, @|1,1",
    "OPEN \"f.txt\" FOR RANDOM AS #1 LEN = 4\nFIELD #1, 3 AS FV$, @ AS FW$\nLSET FW$ = \"wxyz\"\nPUT #1, 1\nGET #1, 2|2",
    // RANDOM without LEN
    "OPEN \"f.txt\" FOR RANDOM AS #1\nFIELD #1, @ AS FV$\nLSET FV$ = \"x\"\nPUT #1, 1\nGET #1, 1\nPRINT FV$|4",
    // whole arrays as arguments
    "DIM FA(2) AS STRING * 3\nPAS @|FA()",
    "PAS @|A$()",
    "PA @|A()",
    "PAI @|A()",
    "CALL P(@)|A",
    "CALL Q(@, @)|\"x\",1",
    "@|P",
    "@ @|P,1",
];

pub struct Template {
    pub parts: Vec<String>,
    pub defaults: Vec<String>,
}

pub fn parse_template(t: &str) -> Template {
    let (body, defaults) = t.rsplit_once('|').unwrap_or((t, ""));
    let parts: Vec<String> = body.split('@').map(|s| s.to_string()).collect();
    let mut defaults: Vec<String> = defaults.split(',').map(|s| s.to_string()).collect();
    while defaults.len() < parts.len() - 1 {
        defaults.push("1".into());
    }
    Template { parts, defaults }
}

impl Template {
    pub fn slots(&self) -> usize {
        self.parts.len() - 1
    }

    pub fn fill(&self, ops: &[&str]) -> String {
        let mut s = String::new();
        for (i, p) in self.parts.iter().enumerate() {
            s.push_str(p);
            if i < ops.len() {
                s.push_str(ops[i]);
            }
        }
        s
    }
}

/// All instantiations with up to `max_free` slots varied at once over the operand menu.
/// Returns (template index, statement text).
pub fn instantiate(max_free: usize) -> Vec<(usize, String)> {
    let mut out = vec![];
    for (ti, t) in TEMPLATES.iter().enumerate() {
        let t = parse_template(t);
        let n = t.slots();
        let defaults: Vec<&str> = t.defaults.iter().map(|s| s.as_str()).collect();
        out.push((ti, t.fill(&defaults)));
        // one free slot
        for i in 0..n {
            for op in OPERANDS {
                let mut ops = defaults.clone();
                ops[i] = op;
                out.push((ti, t.fill(&ops)));
            }
        }
        if max_free >= 2 {
            for i in 0..n {
                for j in (i + 1)..n {
                    for a in OPERANDS {
                        for b in OPERANDS {
                            let mut ops = defaults.clone();
                            ops[i] = a;
                            ops[j] = b;
                            out.push((ti, t.fill(&ops)));
                        }
                    }
                }
            }
        }
    }
    out
}

/// Every template with its default operands, its last line cut after every token (optional clauses and
/// trailing arguments missing) and with every single token of that line deleted.
pub fn edited_templates() -> Vec<String> {
    use crate::btok::{TokKind, tokenize};
    let mut out = vec![];
    for t in TEMPLATES {
        let t = parse_template(t);
        let defaults: Vec<&str> = t.defaults.iter().map(|s| s.as_str()).collect();
        let full = t.fill(&defaults);
        let (head, last) = match full.rfind('\n') {
            Some(i) => (&full[..=i], &full[i + 1..]),
            None => ("", full.as_str()),
        };
        let toks = tokenize(last);
        let solid: Vec<usize> = (0..toks.len()).filter(|i| !matches!(toks[*i].kind, TokKind::Blank | TokKind::Eol)).collect();
        for (k, &ti) in solid.iter().enumerate() {
            // prefix ending with this token (the whole line is the unedited template)
            if k + 1 < solid.len() {
                let text: String = toks[..=ti].iter().map(|x| x.text.as_str()).collect();
                out.push(format!("{}{}", head, text.trim_end()));
            }
            // this token deleted
            let text: String = toks.iter().enumerate().filter(|(i, _)| *i != ti).map(|(_, x)| x.text.as_str()).collect();
            out.push(format!("{}{}", head, text.trim_end()));
        }
    }
    out.sort();
    out.dedup();
    out
}

/// Tokens far longer than any statement needs: identifiers, numbers in every notation, string literals,
/// comments, argument and subscript lists, PRINT lists, lines and files of many lines.
pub fn long_token_programs() -> Vec<String> {
    let mut out = vec![];
    let ident = |n: usize| -> String { "LongIdentifierNumberOne234567890123456789012345678901234567890".repeat(1 + n / 60).chars().take(n).collect() };
    for n in [39usize, 40, 41, 64, 255, 256, 1000] {
        let id = ident(n);
        out.push(format!("{} = 1\nPRINT {}\n", id, id));
        out.push(format!("{}$ = \"x\"\nPRINT {}$\n", id, id));
        out.push(format!("DIM {} AS INTEGER\n", id));
        out.push(format!("GOTO {}\n{}:\n", id, id));
        out.push(format!("CALL {}(1)\n", id));
        out.push(format!("PRINT \"{}\"\n", id));
        out.push(format!("PRINT 1 ' {}\n", id));
        out.push(format!("REM {}\n", id));
        out.push(format!("DATA {}\n", id));
        out.push(format!("TYPE T\n {} AS INTEGER\nEND TYPE\n", id));
    }
    for n in [5usize, 9, 10, 11, 16, 17, 19, 20, 21, 22, 23, 39, 40, 41, 100, 310, 400, 5000] {
        let nine = "9".repeat(n);
        let one = format!("1{}", "0".repeat(n - 1));
        for d in [&nine, &one] {
            out.push(format!("PRINT {}\n", d));
            out.push(format!("PRINT {}.5\n", d));
            out.push(format!("PRINT {}.5#\n", d));
            out.push(format!("PRINT .{}\n", d));
            out.push(format!("PRINT 1.{}#\n", d));
            out.push(format!("X% = {}\n", d));
            out.push(format!("DATA {}\nREAD X\n", d));
            out.push(format!("DIM A({})\n", d));
            out.push(format!("CONST C = {}\n", d));
        }
        out.push(format!("PRINT &H{}\n", "F".repeat(n)));
        out.push(format!("PRINT &H1{}\n", "0".repeat(n)));
        out.push(format!("PRINT &O{}\n", "7".repeat(n)));
        out.push(format!("PRINT &O1{}\n", "0".repeat(n)));
        out.push(format!("PRINT -&h{}\n", "f".repeat(n)));
        out.push(format!("CONST C = &H{}\n", "F".repeat(n)));
        out.push(format!("DIM A(&O{})\n", "7".repeat(n)));
    }
    for n in [10usize, 100, 1000] {
        let args: Vec<String> = (0..n).map(|i| (i % 7).to_string()).collect();
        out.push(format!("PRINT {}\n", args.join("; ")));
        out.push(format!("PRINT {}\n", args.join(", ")));
        out.push(format!("X = {}\n", args.join(" + ")));
        out.push(format!("P {}\n", args.join(", ")));
        out.push(format!("X = F({})\n", args.join(", ")));
        out.push(format!("DIM A({})\n", args.join(", ")));
        out.push(format!("A({}) = 1\n", args.join(", ")));
        out.push(format!("DATA {}\n", args.join(", ")));
        out.push(format!("READ {}\n", (0..n).map(|i| format!("V{}", i)).collect::<Vec<_>>().join(", ")));
        out.push(format!("SELECT CASE X\nCASE {}\nEND SELECT\n", args.join(", ")));
        out.push(format!("DIM {}\n", (0..n).map(|i| format!("V{}", i)).collect::<Vec<_>>().join(", ")));
        out.push(format!("X = 1{}\n", " ".repeat(n * 70)));
        out.push(format!("{}X = 1\n", " ".repeat(n * 70)));
        out.push(format!("X = 1{}", "\n".repeat(n * 70)));
        out.push(format!("{}", ":".repeat(n)));
        out.push(format!("X = 1{}Y = 2\n", ":".repeat(n)));
    }
    // many lines: a diagnostic beyond row 65536
    let mut many = String::new();
    for i in 0..66000 {
        many.push_str(if i % 2 == 0 { "X = 1\n" } else { "' c\n" });
    }
    out.push(format!("{}X = = 2\n", many));
    out.push(format!("{}GOTO Nowhere\n", many));
    out.push(format!("{}PRINT 1\n", many));
    out
}

/// The full program text for one instantiated statement.
pub fn program(stmt: &str) -> String {
    format!("{}{}\n{}", HEADER, stmt, FOOTER)
}

/// The containers a statement can stand in besides the module level.
pub const CONTAINERS: [&str; 8] = [
    "SUB body",
    "FUNCTION body",
    "STATIC SUB body, called twice",
    "single-line IF",
    "block IF inside a FOR body",
    "CASE block",
    "ELSE block of a WHILE body",
    "SUB body with the declarations DIM SHARED at module level",
];

/// The program text for one instantiated statement inside container `c` (see CONTAINERS). Inside a
/// subprogram the declarations of HEADER are repeated locally (or shared), and the label L1 exists there.
pub fn program_in(c: usize, stmt: &str) -> String {
    let types = "TYPE T\n  F AS INTEGER\n  S AS STRING * 3\nEND TYPE\nDECLARE FUNCTION F (X)\nDECLARE FUNCTION G$ (X$)\n";
    let dims = "DIM R AS T\nDIM A(5)\nDIM A$(5)\n";
    let fns = "FUNCTION F (X)\n  F = X\nEND FUNCTION\nFUNCTION G$ (X$)\n  G$ = X$\nEND FUNCTION\nSUB P (X)\nEND SUB\nSUB Q (X$, Y%)\nEND SUB\nSUB PA (X())\nEND SUB\nSUB PAS (X$())\nEND SUB\n";
    match c {
        0 => format!("{}W\nEND\n{}SUB W\n{}{}\nEXIT SUB\nL1:\nRETURN\nEND SUB\n", types, fns, dims, stmt),
        1 => format!("{}PRINT WF(1)\nEND\n{}FUNCTION WF (N)\n{}{}\nWF = 1\nEXIT FUNCTION\nL1:\nRETURN\nEND FUNCTION\n", types, fns, dims, stmt),
        2 => format!("{}W\nW\nEND\n{}SUB W STATIC\n{}{}\nEXIT SUB\nL1:\nRETURN\nEND SUB\n", types, fns, dims.replace("DIM ", "DIM "), stmt),
        3 => {
            // only statements that fit on one line
            if stmt.contains('\n') {
                return String::new();
            }
            format!("{}IF 1 THEN {}\n{}", HEADER, stmt, FOOTER)
        }
        4 => format!("{}FOR II = 1 TO 2\nIF II = 2 THEN\n{}\nEND IF\nNEXT\n{}", HEADER, stmt, FOOTER),
        5 => format!("{}SELECT CASE 1\nCASE 1\n{}\nCASE ELSE\nEND SELECT\n{}", HEADER, stmt, FOOTER),
        6 => format!("{}WW = 0\nWHILE WW < 1\nWW = WW + 1\nIF 0 THEN\nELSE\n{}\nEND IF\nWEND\n{}", HEADER, stmt, FOOTER),
        _ => format!("{}{}W\nEND\n{}SUB W\n{}\nEXIT SUB\nL1:\nRETURN\nEND SUB\n", types, dims.replace("DIM ", "DIM SHARED "), fns, stmt),
    }
}

/// Every template with its default operands and with one free slot, inside every container.
pub fn instantiate_in_containers(one_free_slot_in: &[usize]) -> Vec<String> {
    let mut out = vec![];
    for c in 0..CONTAINERS.len() {
        let free = one_free_slot_in.contains(&c);
        for t in TEMPLATES {
            let t = parse_template(t);
            let defaults: Vec<&str> = t.defaults.iter().map(|s| s.as_str()).collect();
            let mut stmts = vec![t.fill(&defaults)];
            if free {
                for i in 0..t.slots() {
                    for op in OPERANDS {
                        let mut ops = defaults.clone();
                        ops[i] = op;
                        stmts.push(t.fill(&ops));
                    }
                }
            }
            for st in stmts {
                let p = program_in(c, &st);
                if !p.is_empty() {
                    out.push(p);
                }
            }
        }
    }
    out
}

// ---------------------------------------------------------------------------
// Statement soups: every sequence of up to n statements from a menu of simple
// statements (assignments, jumps, labels, handlers, one-line loops, file I/O).
// ---------------------------------------------------------------------------

pub const SOUP_STATEMENTS: &[&str] = &[
    "X = X + 1",
    "PRINT X",
    "GOTO L1",
    "GOSUB L1",
    "RETURN",
    "L1:",
    "L2:",
    "ON ERROR GOTO L1",
    "ON ERROR GOTO L2",
    "ON ERROR GOTO 0",
    "ON ERROR RESUME NEXT",
    "RESUME",
    "RESUME NEXT",
    "RESUME L2",
    "X = 1 / 0",
    "END",
    "A(9) = 1",
    "P X",
    "Y = F(X)",
    "IF X < 3 THEN GOTO L1",
    "FOR I = 1 TO 2: X = X + 1: NEXT",
    "WHILE X < 2: X = X + 1: WEND",
    "SELECT CASE X: CASE 1: PRINT 1: CASE ELSE: END SELECT",
    "READ X",
    "DATA 7",
    "OPEN \"f.txt\" FOR OUTPUT AS #1",
    "PRINT #1, X",
    "CLOSE",
    "OPEN \"g.txt\" FOR INPUT AS #1",
    "INPUT #1, X",
];

pub const SOUP_HEADER: &str = "DIM A(3)\n";
pub const SOUP_FOOTER: &str = "END\nFUNCTION F (N)\n  F = N + 1\nEND FUNCTION\nSUB P (N)\n  N = N + 1\nEND SUB\n";

pub fn statement_soups(max_len: usize, menu: usize) -> Vec<String> {
    let menu = menu.min(SOUP_STATEMENTS.len());
    let mut out = vec![];
    for len in 1..=max_len {
        let mut idx = vec![0usize; len];
        'outer: loop {
            let mut s = String::from(SOUP_HEADER);
            let mut labels = [false; 2];
            for i in &idx {
                let st = SOUP_STATEMENTS[*i];
                if st == "L1:" {
                    labels[0] = true;
                }
                if st == "L2:" {
                    labels[1] = true;
                }
                s.push_str(st);
                s.push('\n');
            }
            s.push_str(SOUP_FOOTER);
            // labels that are referenced but not defined get a definition after END
            if !labels[0] && s.contains("L1") {
                s.push_str("L1:\nPRINT \"h1\"\nRESUME NEXT\n");
            }
            if !labels[1] && s.contains("L2") {
                s.push_str("L2:\nPRINT \"h2\"\n");
            }
            out.push(s);
            let mut k = len;
            loop {
                if k == 0 {
                    break 'outer;
                }
                k -= 1;
                idx[k] += 1;
                if idx[k] < menu {
                    break;
                }
                idx[k] = 0;
            }
        }
    }
    out
}

// ---------------------------------------------------------------------------
// Block skeletons: every block construct with each optional part present or
// absent and each body empty, a comment, or one statement; nested to depth 2.
// ---------------------------------------------------------------------------

fn bodies(depth: usize) -> Vec<String> {
    let mut v = vec![String::new(), "' c\n".to_string(), "PRINT 1\n".to_string()];
    if depth > 0 {
        v.extend(block_skeletons(depth - 1));
    }
    v
}

pub fn block_skeletons(depth: usize) -> Vec<String> {
    let b = bodies(depth);
    // for the two-body constructs only the plain bodies are combined with everything
    let plain: Vec<String> = vec![String::new(), "' c\n".to_string(), "PRINT 1\n".to_string()];
    let mut out = vec![];
    for x in &b {
        out.push(format!("IF X THEN\n{}END IF\n", x));
        out.push(format!("WHILE X < 0\n{}WEND\n", x));
        out.push(format!("DO WHILE X < 0\n{}LOOP\n", x));
        out.push(format!("DO\n{}LOOP UNTIL X = 0\n", x));
        out.push(format!("FOR I = 1 TO 2\n{}NEXT\n", x));
        out.push(format!("FOR I = 2 TO 1 STEP -1\n{}NEXT I\n", x));
        out.push(format!("SELECT CASE X\nCASE 0\n{}END SELECT\n", x));
        out.push(format!("SELECT CASE X\nCASE ELSE\n{}END SELECT\n", x));
        out.push(format!("SELECT CASE X\n{}END SELECT\n", if x.starts_with('\'') { x.as_str() } else { "" }));
        for y in &plain {
            out.push(format!("IF X THEN\n{}ELSE\n{}END IF\n", x, y));
            out.push(format!("IF X THEN\n{}ELSE\n{}END IF\n", y, x));
            out.push(format!("IF X THEN\n{}ELSEIF X = 0 THEN\n{}END IF\n", y, x));
            out.push(format!("IF X THEN\n{}ELSEIF X = 1 THEN\n{}ELSEIF X = 0 THEN\n{}ELSE\n{}END IF\n", y, y, x, y));
            out.push(format!("SELECT CASE X\nCASE 1\n{}CASE ELSE\n{}END SELECT\n", y, x));
            out.push(format!("SELECT CASE X\nCASE 1\n{}CASE ELSE\n{}END SELECT\n", x, y));
            out.push(format!("SELECT CASE X\nCASE 1, 2\n{}CASE IS > 5\n{}CASE 0 TO 0\n{}END SELECT\n", y, y, x));
        }
    }
    out.sort();
    out.dedup();
    out
}

// ---------------------------------------------------------------------------
// One-line spellings: several block statements on the same source line
// (sequential and nested), so that they share their row.
// ---------------------------------------------------------------------------

pub fn one_line_programs() -> Vec<String> {
    // (opening, closing) pairs of one-line block constructs using counter / flag variable `v`
    // the bounds depend on the variable (I: 2 rounds, J: 3 rounds, other steps), so that state shared
    // by mistake between two constructs of one line (they have the same row) shows in the output
    let open_close = |k: usize, v: &str| -> (String, String) {
        let n = if v == "I" { 2 } else { 3 };
        let st = if v == "I" { 1 } else { 2 };
        match k {
            0 => (format!("FOR {v} = 1 TO {n}"), format!("NEXT {v}")),
            1 => (format!("FOR {v} = {} TO 1 STEP -{st}", 2 * n), "NEXT".to_string()),
            2 => (format!("{v} = 0: WHILE {v} < {n}: {v} = {v} + 1"), "WEND".to_string()),
            3 => (format!("{v} = 0: DO WHILE {v} < {n}: {v} = {v} + 1"), "LOOP".to_string()),
            4 => (format!("{v} = 0: DO: {v} = {v} + 1"), format!("LOOP UNTIL {v} >= {n}")),
            5 => (format!("SELECT CASE {v}: CASE 0, 1, 2"), "CASE ELSE: PRINT \"else\": END SELECT".to_string()),
            _ => (format!("IF {v} >= 0 THEN"), String::new()),
        }
    };
    let mut out = vec![];
    for a in 0..7 {
        for b in 0..7 {
            let (oa, ca) = open_close(a, "I");
            let (ob, cb) = open_close(b, "J");
            // sequential on one line (a single-line IF swallows the rest of the line: keep it last)
            if a != 6 {
                let second = if cb.is_empty() {
                    format!("{}: PRINT \"b\"; J", ob).replacen("THEN:", "THEN", 1)
                } else {
                    format!("{}: PRINT \"b\"; J: {}", ob, cb)
                };
                out.push(format!("{}: PRINT \"a\"; I: {}: {}\nPRINT \"end\"\n", oa, ca, second));
            }
            // nested on one line
            let inner = if cb.is_empty() {
                None
            } else {
                Some(format!("{}: PRINT I; J: {}", ob, cb))
            };
            if let Some(inner) = inner {
                let line = if ca.is_empty() {
                    format!("{} {}", oa, inner)
                } else {
                    format!("{}: {}: {}", oa, inner, ca)
                };
                out.push(format!("{}\nPRINT \"end\"\n", line));
            }
        }
    }
    out
}
