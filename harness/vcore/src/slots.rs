//! Statement templates with operand slots, and a menu of operand shapes.
//! Every template is instantiated with every menu entry in every slot (all
//! combinations for up to `max_free` slots varied at once, the remaining slots
//! keeping their default). Used by C07 (totality of parse + lint), C08
//! (accepted programs run to a BASIC-level outcome) and C12 (soundness).

/// Operand shapes. `{}` style: plain text pasted into a slot.
pub const OPERANDS: &[&str] = &[
    "A", "A$", "A%", "B#", "A(1)", "A$(1)", "R.F", "R", "CHR", "CHR$(65)", "LEN", "LEN(A$)", "1", "1.5",
    "70000", "\"s\"", "(1)", "(A$)", "-A", "A + 1", "A$ + \"x\"", "F(1)", "G$(\"x\")", "ERR", "UCASE$(5)", "",
];

/// Declarations placed before every instantiated template, so that the names of
/// the operand menu resolve to an array, a record, a function, etc.
pub const HEADER: &str = "TYPE T\n  F AS INTEGER\n  S AS STRING * 3\nEND TYPE\nDECLARE FUNCTION F (X)\nDECLARE FUNCTION G$ (X$)\nDIM R AS T\nDIM A(5)\nDIM A$(5)\n";

pub const FOOTER: &str = "END\nL1:\nRETURN\nFUNCTION F (X)\n  F = X\nEND FUNCTION\nFUNCTION G$ (X$)\n  G$ = X$\nEND FUNCTION\nSUB P (X)\nEND SUB\nSUB Q (X$, Y%)\nEND SUB\n";

/// Templates: `@` marks a slot; the default filling of each slot follows after `|`, comma separated.
pub const TEMPLATES: &[&str] = &[
    "@ = @|A,1",
    "LET @ = @|A,1",
    "PRINT @; @|1,1",
    "PRINT @, @;|1,\"s\"",
    "LPRINT @|1",
    "PRINT USING @; @|\"##\",1",
    "IF @ THEN @ = @|A,A,1",
    "IF @ THEN\nPRINT 1\nELSEIF @ THEN\nPRINT 2\nEND IF|A,A",
    "WHILE @\nWEND|0",
    "DO WHILE @\nLOOP|0",
    "DO\nLOOP UNTIL @|1",
    "FOR @ = @ TO @\nNEXT|I,1,2",
    "FOR I = @ TO @ STEP @\nNEXT I|1,2,1",
    "FOR @ = 1 TO 2\nNEXT @|I,I",
    "SELECT CASE @\nCASE @\nPRINT 1\nEND SELECT|A,1",
    "SELECT CASE @\nCASE @ TO @\nPRINT 1\nCASE IS > @\nPRINT 2\nEND SELECT|A,1,2,3",
    "DIM Z(@ TO @)|1,2",
    "DIM @|Z",
    "DIM @ AS INTEGER|Z",
    "DIM @ AS T|Z",
    "DIM @ AS STRING * 4|Z",
    "REDIM Z(@)|3",
    "CONST Z = @|1",
    "CONST @ = 1|Z",
    "INPUT @|A",
    "INPUT @, @|A,A$",
    "LINE INPUT @|A$",
    "READ @|A",
    "DATA 1\nREAD @, @|A,A$",
    "GOTO @|L1",
    "GOSUB @|L1",
    "ON ERROR GOTO @|L1",
    "RESUME @|NEXT",
    "P @|1",
    "CALL P(@)|1",
    "Q @, @|\"x\",1",
    "PRINT F(@)|1",
    "PRINT G$(@)|\"x\"",
    "PRINT LEN(@)|A$",
    "PRINT LEFT$(@, @)|\"abc\",1",
    "PRINT MID$(@, @, @)|\"abc\",1,1",
    "PRINT INSTR(@, @)|\"abc\",\"b\"",
    "PRINT STRING$(@, @)|2,\"x\"",
    "PRINT CHR$(@); STR$(@); VAL(@)|65,1,\"1\"",
    "PRINT UCASE$(@); LTRIM$(@); SPACE$(@)|\"a\",\"a\",1",
    "PRINT LBOUND(@); UBOUND(@, @)|A,A,1",
    "PRINT VARPTR(@); VARSEG(@)|A,A",
    "PRINT PEEK(@)|VARPTR(A)",
    "PRINT CVD(@); MKD$(@)|\"12345678\",1",
    "PRINT EOF(@)|1",
    "PRINT ENVIRON$(@)|\"X\"",
    "OPEN @ FOR OUTPUT AS #@|\"f.txt\",1",
    "OPEN @ FOR RANDOM AS #1 LEN = @|\"f.txt\",4",
    "CLOSE #@|1",
    "OPEN \"f.txt\" FOR OUTPUT AS #1\nPRINT #@, @\nCLOSE|1,1",
    "OPEN \"f.txt\" FOR OUTPUT AS #1\nCLOSE\nOPEN \"f.txt\" FOR INPUT AS #1\nINPUT #1, @\nLINE INPUT #1, @|A,A$",
    "OPEN \"f.txt\" FOR RANDOM AS #1 LEN = 4\nFIELD #1, @ AS @\nLSET @ = @\nPUT #1, @\nGET #1, @|4,A$,A$,\"x\",1,1",
    "DEF SEG = @|0",
    "POKE @, @|VARPTR(A%),1",
    "LOCATE @, @|1,1",
    "COLOR @, @|1,1",
    "WIDTH @, @|80,25",
    "VIEW PRINT @ TO @|1,2",
    "CLS @|0",
    "NAME @ AS @|\"a\",\"b\"",
    "KILL @|\"a\"",
    "ENVIRON @|\"A=B\"",
    "R.F = @|1",
    "R.S = @|\"x\"",
    "A(@) = @|1,1",
    "A$(@) = @|1,\"x\"",
    "SWAP @, @|A,A",
];

pub struct Template {
    pub parts: Vec<String>,
    pub defaults: Vec<String>,
}

pub fn parse_template(t: &str) -> Template {
    let (body, defaults) = t.rsplit_once('|').unwrap_or((t, ""));
    let parts: Vec<String> = body.split('@').map(|s| s.to_string()).collect();
    let mut defaults: Vec<String> = defaults.split(',').map(|s| s.to_string()).collect();
    while defaults.len() < parts.len() - 1 {
        defaults.push("1".into());
    }
    Template { parts, defaults }
}

impl Template {
    pub fn slots(&self) -> usize {
        self.parts.len() - 1
    }

    pub fn fill(&self, ops: &[&str]) -> String {
        let mut s = String::new();
        for (i, p) in self.parts.iter().enumerate() {
            s.push_str(p);
            if i < ops.len() {
                s.push_str(ops[i]);
            }
        }
        s
    }
}

/// All instantiations with up to `max_free` slots varied at once over the operand menu.
/// Returns (template index, statement text).
pub fn instantiate(max_free: usize) -> Vec<(usize, String)> {
    let mut out = vec![];
    for (ti, t) in TEMPLATES.iter().enumerate() {
        let t = parse_template(t);
        let n = t.slots();
        let defaults: Vec<&str> = t.defaults.iter().map(|s| s.as_str()).collect();
        out.push((ti, t.fill(&defaults)));
        // one free slot
        for i in 0..n {
            for op in OPERANDS {
                let mut ops = defaults.clone();
                ops[i] = op;
                out.push((ti, t.fill(&ops)));
            }
        }
        if max_free >= 2 {
            for i in 0..n {
                for j in (i + 1)..n {
                    for a in OPERANDS {
                        for b in OPERANDS {
                            let mut ops = defaults.clone();
                            ops[i] = a;
                            ops[j] = b;
                            out.push((ti, t.fill(&ops)));
                        }
                    }
                }
            }
        }
    }
    out
}

/// The full program text for one instantiated statement.
pub fn program(stmt: &str) -> String {
    format!("{}{}\n{}", HEADER, stmt, FOOTER)
}
