#!/bin/bash
# tools/confirm_seed.sh <ID> <k> — independent confirmation of a sub-agent's seed in its scratch worktree
# /tmp/wt/<ID> (moved to /repo's HEAD): the patch applies, the project builds, the demonstration behaves
# differently with and without the change, and the repository's own tests pass with the change.
# Writes /tmp/wt/<ID>/SEED/seed<k>/confirm.json.
ID="$1"; K="$2"
WT=/tmp/wt/$ID; SD=$WT/SEED/seed$K
cd $WT || exit 2
git checkout -q -- . && git checkout -q --detach $(git -C /repo rev-parse HEAD) || exit 2
# a target directory copied from elsewhere looks fresh to cargo although it was built from older sources: rebuild everything once
find . -name '*.rs' -not -path './target/*' -not -path './SEED/*' -print0 | xargs -0 touch
run_demo() {  # prints the demo's output (stdout+stderr first lines, exit status)
  if [ -f $SD/demo.sh ]; then
    ( timeout 120 sh $SD/demo.sh 2>&1 | grep -v "^stack backtrace\|^  *[0-9][0-9]*: \|^ *at \|^note:" | head -60 )
  elif [ -f $SD/demo.bas ]; then
    cargo build --offline -q --bin rusty_basic 2>/dev/null
    ( timeout 120 ./target/debug/rusty_basic $SD/demo.bas < /dev/null 2>&1 | grep -v "^stack backtrace\|^  *[0-9][0-9]*: \|^ *at \|^note:" | head -60; echo "exit=${PIPESTATUS[0]}" )
  else
    echo "no-bas-demo"
  fi
}
CLEAN=$(run_demo)
git apply $SD/patch.diff || { echo '{"applies": false}' > $SD/confirm.json; exit 1; }
PATCHED=$(run_demo)
T=$(cargo test --workspace --no-fail-fast --offline 2>&1 | grep -E "^test result")
PASSED=$(echo "$T" | sed -n 's/.* \([0-9]*\) passed.*/\1/p' | paste -sd+ | bc)
FAILED=$(echo "$T" | sed -n 's/.* \([0-9]*\) failed.*/\1/p' | paste -sd+ | bc)
git checkout -q -- .
printf '%s' "$CLEAN" > $SD/.clean.out; printf '%s' "$PATCHED" > $SD/.patched.out
python3 /verif/tools/confirm_json.py "$SD" "$PASSED" "$FAILED" "$(git -C /repo rev-parse --short HEAD)"
rm -f $SD/.clean.out $SD/.patched.out
