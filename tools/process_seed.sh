#!/bin/bash
# tools/process_seed.sh <ID> [k...] — confirm (tools/confirm_seed.sh) and screen (tools/screen_seed.sh, quick tier)
# the sub-agent seeds /tmp/wt/<ID>/SEED/seed<k>; one summary line per seed in /tmp/wt/proc_<ID>.log
ID="$1"; shift; KS="${@:-4 5}"
LOG=/tmp/wt/proc_$ID.log
[ -d /tmp/wt/hsnap ] && export WTCHECK_HARNESS=/tmp/wt/hsnap/harness WTCHECK_KNOWN=/tmp/wt/hsnap/known_findings.json
: > $LOG
for K in $KS; do
  [ -f /tmp/wt/$ID/SEED/seed$K/patch.diff ] || { echo "$ID seed$K: no patch" >> $LOG; continue; }
  C=$(/verif/tools/confirm_seed.sh $ID $K 2>&1 | tail -1)
  S=$(/verif/tools/screen_seed.sh $ID $K quick 2>&1 | grep -E "signature|exit=|MACHINERY|does not apply" | head -4 | tr '\n' ' ')
  echo "$ID seed$K: CONFIRM $C | SCREEN $S" >> $LOG
done
echo "$ID done" >> $LOG
