#!/bin/sh
# tools/hsnap.sh — refreshes /tmp/wt/hsnap (the committed harness + known findings) used for screening seeds
rm -rf /tmp/wt/hsnap; mkdir -p /tmp/wt/hsnap
git -C /verif archive HEAD harness known_findings.json | tar -x -C /tmp/wt/hsnap
git -C /verif rev-parse --short HEAD > /tmp/wt/hsnap/COMMIT
