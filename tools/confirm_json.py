import json, sys
sd = sys.argv[1]
clean = open(sd + '/.clean.out', encoding='latin-1').read()
patched = open(sd + '/.patched.out', encoding='latin-1').read()
json.dump({"applies": True, "head": sys.argv[4], "demo_differs": clean != patched, "demo_clean": clean[:1500], "demo_patched": patched[:1500],
           "tests_passed": int(sys.argv[2] or 0), "tests_failed": int(sys.argv[3] or 0)}, open(sd + '/confirm.json', 'w'), indent=1)
print(sd, "differs=", clean != patched, "passed=", sys.argv[2], "failed=", sys.argv[3])
