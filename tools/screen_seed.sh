#!/bin/sh
# tools/screen_seed.sh <ID> <k> [tier] [check-ID]: screen /tmp/wt/<ID>/SEED/seed<k>/patch.diff in that worktree (at /repo's HEAD)
ID="$1"; K="$2"; TIER="${3:-quick}"; CID="${4:-$ID}"
WT=/tmp/wt/$ID
git -C $WT checkout -q -- . && git -C $WT checkout -q --detach $(git -C /repo rev-parse HEAD) || exit 2
git -C $WT apply $WT/SEED/seed$K/patch.diff || { echo "patch does not apply"; exit 2; }
/verif/tools/wtcheck.sh $WT $CID $TIER
RC=$?
git -C $WT checkout -q -- .
exit $RC
