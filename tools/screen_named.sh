#!/bin/sh
# tools/screen_named.sh <seed-name> [check-ID] [tier]: screens /verif/seeded/<name>/patch.diff in the clean scratch worktree /tmp/rs/w9
NAME="$1"; PROP=${2:-$(echo $NAME | cut -d- -f1)}; TIER=${3:-quick}
WT=/tmp/rs/w9
[ -d $WT ] || git -C /repo worktree add -q --detach $WT HEAD
git -C $WT checkout -q -- . && git -C $WT clean -fdq && git -C $WT checkout -q --detach $(git -C /repo rev-parse HEAD) || exit 2
git -C $WT apply /verif/seeded/$NAME/patch.diff || { echo "patch does not apply"; exit 2; }
WTCHECK_SCRATCH=/tmp/rs/c /verif/tools/wtcheck.sh $WT $PROP $TIER
RC=$?
git -C $WT checkout -q -- .
exit $RC
