#!/bin/sh
# tools/wtcheck.sh <repo-worktree> <ID> [tier]
# Screening helper (never a registered check): runs a property's check against a scratch worktree of
# the repository instead of /repo, from a private copy of the harness with the path dependencies
# rewritten, so that several seeded changes can be screened in parallel and /repo stays untouched.
# Registered checks and committed evidence always come from ./check against /repo itself.
WT=$(realpath "$1"); ID="$2"; TIER="${3:-quick}"
ROOT=$(cd "$(dirname "$0")/.." && pwd)
SCR="${WTCHECK_SCRATCH:-/tmp/wtc}/$(basename "$WT")"
mkdir -p "$SCR"
rm -rf "$SCR/harness"; cp -r "${WTCHECK_HARNESS:-$ROOT/harness}" "$SCR/harness"
sed -i "s#\"/repo/#\"$WT/#" "$SCR/harness/vmain/Cargo.toml"
cp "${WTCHECK_KNOWN:-$ROOT/known_findings.json}" "$SCR/"
mkdir -p "$SCR/evidence" "$SCR/replays"
[ -d "$SCR/target" ] || cp -r "$ROOT/target" "$SCR/target"
export CARGO_NET_OFFLINE=true VERIF_ROOT="$SCR" VERIF_REPO="$WT"
( cd "$SCR/harness" && cargo build --release --offline -q --target-dir "$SCR/target" 2>"$SCR/build.log" ) || { echo "MACHINERY: build failed"; tail -30 "$SCR/build.log"; exit 2; }
"$SCR/target/release/vmain" check "$ID" "$TIER" > "$SCR/check_$ID.out" 2>&1
RC=$?
grep -E "^(VIOLATION|KNOWN-FINDING|MACHINERY|  signature|C[0-9]+ )" "$SCR/check_$ID.out" | cut -c1-300 | head -${WTCHECK_LINES:-30}
echo "exit=$RC"
exit $RC
