#!/usr/bin/env python3
"""Regenerates /verif/MANIFEST.json from the table below (run after adding a driver)."""
import json, os
ROOT = os.path.dirname(os.path.dirname(os.path.abspath(__file__)))
props = [json.loads(l) for l in open(os.path.join(ROOT, 'properties.jsonl'))]
T_ENUM = 'bounded-exhaustive enumeration of inputs/programs run on the real code against an independent oracle (stateless model checking, sequential form)'
built = {
 'C01': dict(cat='exploration', ref='DESIGN.md §4 C01', tech='bounded-exhaustive enumeration of programs, each run on the real pipeline and on an independent reference semantics (differential, stateless model checking in sequential form)',
   text='Every program of three completely enumerated spaces (all ordered forests of <= 3 control constructs over 15 kinds with trace statements, at module level and inside a SUB; every binary/unary operator x operand types x value menu x 9 contexts; every DATA/READ sequence of <= 2-3 items x admissible variable types x placements) is printed from a generator AST, executed by the real parser/linter/generator/VM and by a hand-written reference semantics; stdout and the end state (error code and row) must agree.',
   note='The reference semantics is hand-written from the language definition and restricted to the exact numeric domain (restrictions R1-R22 in DESIGN.md); cases it does not decide are counted, not judged.'),
 'C02': dict(cat='exploration', ref='DESIGN.md §4 C02', tech='bounded-exhaustive metamorphic testing: every rewrite rule at every site of every enumerated program, implementation compared with itself',
   text='Every control-composition program (<= 2 nodes in quick, 3 in thorough) is rewritten by 7 meaning-preserving AST rewrites at every applicable site alone and at all sites; original and rewritten text must print the same and end the same way on the real pipeline.',
   note='Rewrites are correct by construction on the generated subset (integer counters and SELECT subjects, non-zero steps); no reference semantics involved.'),
 'C03': dict(cat='model_checking', ref='DESIGN.md §4 C03', tech='explicit exploration of the full tree of call histories up to a depth, every history replayed on the implementation and compared with a reference model; plus bounded-exhaustive enumeration of argument shapes',
   text='Argument shapes (7 parameter types x 11 argument shapes x 4 callee actions x SUB/FUNCTION, the same variable twice, recursion depth 0..3) and the full tree of call histories of depth 4 (thorough 6) over STATIC sub / ordinary sub calling it / ordinary sub with a shadowing local / STATIC function inside an argument expression / recursive function / SHARED assignment, at module level and inside a SUB; each compiled to a program, run on the real pipeline and judged by the reference semantics; a VM monitor checks context states and memory blocks.',
   note='R19: subscripts depending on another by-reference argument of the same call are not generated; reference semantics hand-written.'),
 'C04': dict(cat='exploration', ref='DESIGN.md §4 C04', tech=T_ENUM,
   text='All array shapes of 1-2 (thorough 3) dimensions with lower bounds {-2,0,1} and extents {1,2,3} x 7 element types (incl. STRING*3 and a nested record): fill/read-back in both orders with LBOUND/UBOUND, an out-of-range probe at every face of the box (read and write), every ordered pair of writes with a full dump for boxes of <= 6 cells; fixed-length strings as variable, field and element assigned through 5 routes; typed subscripts; all judged by the reference semantics.',
   note='Content of a fixed-length string before its first assignment is never read.'),
 'C05': dict(cat='model_checking', ref='DESIGN.md §4 C05', tech='explicit enumeration of all jump layouts, escape paths, GOSUB nesting histories and handler/fault histories up to a bound, every program run on the real pipeline and compared with an independent reference semantics',
   text='All layouts of a GOTO / GOSUB / ON..GOTO / ON..GOSUB and its target over the positions of up to 3 nested blocks (forward, backward, into and out of every construct), every EXIT / GOTO escape from depth <= 3 to every enclosing level, all GOSUB / RETURN / RETURN label histories of depth <= 3 (thorough 4), every statement kind x fault kind as the failing statement (incl. the last statement of a block, loop, subprogram, module) x {no handler, ON ERROR RESUME NEXT, handler with RESUME / RESUME NEXT / RESUME label, handler cleared by ON ERROR GOTO 0, fault inside a handler}; output, ERR and ending compared with the reference semantics.',
   note='RETURN label only at module level; error edges from failing block headers are not judged (R6); reference semantics hand-written.'),
 'C06': dict(cat='exploration', ref='DESIGN.md §4 C06', tech='bounded-exhaustive enumeration of boundary lattices x delivery routes, differential against the reference semantics plus an in-VM typed-variable monitor',
   text='For every ordered pair of numeric types every value of the target type boundary lattice is delivered through 9 routes (assignment, array element, record field, by-value parameter, FUNCTION result, FOR start+increment, READ, INPUT, FOR limit) as literal and as typed variable; + - * / MOD and unary minus on all pairs of the INTEGER and LONG boundary lattices; judged by the reference semantics (value or Overflow 6 at the right row) and by a monitor in the VM that checks at every statement start that every variable holds a value of its own type and range.',
   note='Ties x.5 excluded (R1); quotients with a LONG operand (R21) and near-whole quotients (R22, known finding) are not judged.'),
 'C07': dict(cat='exploration', ref='DESIGN.md §4 C07', tech=T_ENUM,
   text='Every text of several completely enumerated spaces (token soups over the lexer alphabet up to length 3/4, statement templates x operand menu, every single token-level edit of accepted harvested programs, hostile characters at every token boundary, nesting ladders to depth 200/300) goes through the real parse_main_str + lint in crash-isolated workers; oracle = returns a program or an error located inside the text; panic, crash and hang are violations.',
   note='Totality and position bounds only, not the choice of error; nesting beyond 300 levels and texts outside the enumerated spaces are not covered.'),
 'C08': dict(cat='exploration', ref='DESIGN.md §4 C08', tech=T_ENUM,
   text='Every accepted program of the enumerated spaces (built-in repertoire x argument lists x syntactic positions, statement templates x operand menu, every harvested program x stdin menu) is translated and executed on the real VM under an instruction budget; oracle = ends normally or with a coded BASIC run-time error.',
   note='INKEY$ excluded; budget exhaustion counts only for loop-free programs; in-memory devices via the verif hook.'),
 'C10': dict(cat='exploration', ref='DESIGN.md §4 C10', tech=T_ENUM,
   text='Every operator sequence of length 1..4 (thorough: 5) over the 13 binary operators with unary and parenthesis variants is parsed by the real parser and its tree compared with an independent precedence climber (modulo AND/OR chain association); every 16-bit literal in decimal/hex/octal with leading zeros, a 32-bit lattice, large decimals and fractions are checked for node kind and exact value, also after unary and binary minus.',
   note='Tree-level oracle; the climber encodes the precedence order stated by the property; no blank after a unary minus (the grammar does not allow one).'),
 'C15': dict(cat='model_checking', ref='DESIGN.md §4 C15', tech='explicit-state reachability over abstract VM states (pc, stack depths, context-state kinds, bounded GOSUB stack) of every generated instruction list, with error edges, plus instruction-level conformance of real VM runs against the abstract graph',
   text='For every accepted program of the enumerated groups the instruction list is checked statically (targets resolved and inside the list, labels defined once, branches inside their procedure, Halt/PopRet at the ends, ascending statement addresses) and by breadth-first reachability over abstract states per procedure (no underflow, unique depth vector at every pc, balance at exits; with error edges into handlers for programs using ON ERROR); programs without handlers are also executed on the real VM and every executed instruction must occur in one of its abstract states.',
   note='Stack effects of the 70 instructions are transcribed from the VM handlers (DESIGN.md A.1); calls are summarised as balanced and each procedure analysed on its own; error edges are not drawn from block-statement headers (R6).'),
 'C16': dict(cat='model_checking', ref='DESIGN.md §4 C16', tech='explicit-state search over a column model of the devices (breadth-first over column residues, every transition replayed on the implementation) plus the full tree of PRINT / PRINT USING statement histories up to a depth and bounded-exhaustive enumeration of item lists and format strings; exact device bytes compared with the model',
   text='Every PRINT list of <= 3 (thorough 4) tokens over a value menu (numbers of every type and sign, strings incl. empty, 13/14/15 characters, embedded CR / LF / CR LF) and both separators on screen, LPT1 and a file from start columns 0, 2, 13, 14, 15, 27; the full tree of histories of depth <= 2 (thorough 3) over 32 statement forms x 3 devices; BFS over the model states (column residues of the devices) with every (state, event) transition replayed after the shortest history reaching it; every PRINT USING format string up to length 3 (thorough 5) over {# . , backslash blank ! x} x value lists x trailing semicolon, and histories of PRINT USING statements; PRINT lists whose items call a FUNCTION that itself prints to every device. Oracle: exact bytes of stdout, LPT1 and two files.',
   note='Line width (80 columns) is not modelled; PRINT USING ties, overflowing values, ! with an empty string and malformed fields are not judged; embedded CR and LF are each written as CR LF (the convention of the code comment in write_printer.rs).'),
 'C17': dict(cat='exploration', ref='DESIGN.md §4 C17', tech=T_ENUM,
   text='All strings up to length 4/5 over {a,B,blank} x all counts and positions in -1..7 for LEFT$, RIGHT$, MID$, INSTR (haystacks and needles over {a,B} up to length 4-6 / 3), the case and trim functions, SPACE$, STRING$, LEN(a+b), VAL(STR$(k)) for the INTEGER range; literal, variable and nested argument forms; definitional results from the reference semantics and the stated equations evaluated by the implementation itself.',
   note='7-bit ASCII (R8); INSTR with an empty needle not judged.'),
 'C19': dict(cat='exploration', ref='DESIGN.md §4 C19', tech=T_ENUM,
   text='Bounded-exhaustive enumeration on the real functions (qb_and/qb_or on all 65536 x 79-lattice pairs, i32_to_bytes/bytes_to_i32 on all 65536 values, f64_to_bytes/bytes_to_f64 on every biased exponent x mantissa lattice x sign) and on the real interpreter (AND/OR/NOT via PRINT, PEEK/POKE via VARPTR, MKD$/CVD through RANDOM-file records), each compared with the machine operations.',
   note='Oracle = Rust i16 bit operations and f64::to_le_bytes; doubles restricted to a mantissa lattice; strings with bytes >= 128 only observed through RANDOM files (R8).'),
 'C20': dict(cat='model_checking', ref='DESIGN.md §4 C20', tech='explicit enumeration of all parser expressions up to a depth bound x all inputs up to a length bound; every run of the real combinators compared with a denotational model of the documented semantics',
   text='All parser expressions of depth <= 3 (thorough: 4, capped) built from the real rusty_pc combinators x all inputs over {a,b,c} up to length 3-6 x all start positions; result kind, value, error value and position compared with a denotational model written from the documentation, plus two model-independent invariants.',
   note='The model is hand-written from the doc comments; position after a fatal error is not compared; seq2..seq6 never under a context-setting parent.'),
}
not_built_reason = 'not built yet in this round (driver under construction, see DESIGN.md §8 build order); not claimed'
checks, na = [], []
for p in props:
    i = p['id']
    if i in built:
        b = built[i]
        checks.append({"property_id": i, "quick_cmd": "./check %s quick" % i, "thorough_cmd": "./check %s thorough" % i,
                       "evidence_file": "/verif/evidence/%s.json" % i, "replay_cmd_template": "./check %s --replay {path}" % i,
                       "engine": "vmain", "level_claimed": {"category": b['cat'], "text": b['text'], "design_ref": b['ref']},
                       "level_note": b['note'], "technique": b['tech']})
    else:
        na.append({"property_id": i, "reason": not_built_reason})
hooks = ["8972a89", "a5ff777", "23f7f40", "d3a31b5"]
m = {"version": 1, "setup_cmd": "./setup.sh",
     "hooks": {"guard": "cargo feature `verif` of crate rusty_basic (cfg(feature = \"verif\"))",
               "enable": "the harness depends on rusty_basic with features = [\"verif\"] (harness/vmain/Cargo.toml); /repo's own workspace build never enables it",
               "baseline_off_cmd": "cd /repo && cargo test --workspace --no-fail-fast --offline",
               "source_commits": hooks, "add_only": True},
     "engines": [{"name": "vmain", "path": "/verif/harness", "serves_properties": [c['property_id'] for c in checks],
                  "kind_free_text": "hand-rolled bounded-exhaustive explorers (stateless enumeration and explicit-state BFS with per-transition replay) driving the real pipeline in crash-isolated worker processes"}],
     "checks": checks, "not_applicable": na,
     "notes": "All checks: exit 0 = held on everything explored (KNOWN-FINDING lines possible), 1 = VIOLATION line(s), 2 = machinery failure. VERIF_SEED is accepted and recorded but no check makes a random choice."}
json.dump(m, open(os.path.join(ROOT, 'MANIFEST.json'), 'w'), indent=1)
print("claimed:", [c['property_id'] for c in checks])
