#!/usr/bin/env python3
"""Keeps known_findings.json complete: every `fix:` commit of /repo has a status=fixed entry
("fixed: property=<id> <commit> <what failed>"). Properties come from DESIGN.md section 9.4 (column
"reported by") and from the table below for later commits. Fixed entries suppress nothing."""
import json, re, subprocess
KF = '/verif/known_findings.json'
d = json.load(open(KF))
have = {f.get('fix_commit') for f in d['findings']}
design = open('/verif/DESIGN.md').read()
prop_of = {}
for m in re.finditer(r'^\| ([0-9a-f]{7}) \| (.*?) \| (.*?) \|$', design, re.M):
    prop_of[m.group(1)] = (re.findall(r'C\d\d', m.group(3)) or ['C08'])[0], m.group(2)
log = subprocess.run("git -C /repo log --reverse --format='%h\t%s'", shell=True, capture_output=True, text=True).stdout
n = 0
for line in log.splitlines():
    h, s = line.split('\t', 1)
    if not s.startswith('fix:') or h in have:
        continue
    if h not in prop_of:
        print('no property recorded in DESIGN.md 9.4 for', h, s)
        continue
    prop, what = prop_of[h]
    k = 1 + sum(1 for f in d['findings'] if f['property'] == prop)
    d['findings'].append({
        'id': f'F-{prop}-{k}', 'property': prop, 'status': 'fixed', 'fix_commit': h,
        'fixed': f'fixed: property={prop} {h} {what}',
        'signatures': [], 'what_fails': what, 'commit_subject': s,
    })
    n += 1
json.dump(d, open(KF, 'w'), indent=1)
print('added', n, 'fixed entries;', len(d['findings']), 'entries in all')
