#!/usr/bin/env python3
"""tools/addfix.py <commit> <what failed> <reported by> — appends a row to the fix table of the current session in DESIGN.md
(the last table before Appendix A) and runs sync_fixed.py."""
import sys, subprocess
h, what, by = sys.argv[1:4]
s = open('/verif/DESIGN.md').read()
marker = "\n---------------------------------------------------------------------------\n\n## Appendix A"
j = s.index(marker)
i = s.rindex("Genuine defects found and repaired in this session", 0, j)
# the table ends at the first blank line after its header
t = s.index("|---|---|---|\n", i)
k = s.index("\n\n", t)
s = s[:k] + f"\n| {h} | {what} | {by} |" + s[k:]
open('/verif/DESIGN.md', 'w').write(s)
print(subprocess.run(['python3', '/verif/tools/sync_fixed.py'], capture_output=True, text=True).stdout)
