#!/usr/bin/env python3
"""Runs every seeded change: does the patch apply to /repo's HEAD, does the repository's own test
suite still pass with it, and does the property's quick check report it. Writes seeded/<id>/meta.json
and seeded/RESULTS.md. /repo is restored after every seed (never committed)."""
import json, os, re, subprocess, sys

ROOT = os.path.dirname(os.path.dirname(os.path.abspath(__file__)))
SEEDS = os.path.join(ROOT, 'seeded')
only = sys.argv[1:]

def sh(cmd, **kw):
    return subprocess.run(cmd, shell=True, capture_output=True, text=True, **kw)

def restore():
    sh('git -C /repo checkout -- . && git -C /repo clean -fdq -- rusty_basic rusty_parser rusty_linter rusty_pc rusty_variant rusty_bit_vec rusty_common')

NOTES = {
    'C06-B': 'neutralised by the fix 982ebab (arithmetic expressions are always cast to a numeric target): the patched branch is no longer reached',
    'C02-A': 'obsolete: it moved the PushRegisters / PopRegisters of FOR bodies, which the fix cdfc88a removed (limit and step are hidden variables now); C02-B covers the property on the current tree',
    'C15-B': 'obsolete: it instrumented the register frames of FOR bodies, which the fixes 511011f and cdfc88a removed; replaced by the hand-made C15-C',
    'C16-B': 'neutralised by the fix e9c09b1 (one PrintState per PRINT statement): the leaked format cursor no longer exists; on the pre-fix PRINT code the uhist group reports it; replaced by the hand-made C16-C',
}
HAND_MADE = {'C15-C', 'C16-C'}

rows = []
if only == ['--report']:
    for name in sorted(os.listdir(SEEDS)):
        mp = os.path.join(SEEDS, name, 'meta.json')
        if os.path.isfile(mp):
            m = json.load(open(mp))
            if name in NOTES:
                m['note'] = NOTES[name]
                json.dump(m, open(mp, 'w'), indent=1)
            rows.append(m)
    only = []
    names = []
else:
    names = sorted(os.listdir(SEEDS))
for name in names:
    d = os.path.join(SEEDS, name)
    patch = os.path.join(d, 'patch.diff')
    if not os.path.isfile(patch) or (only and name not in only):
        continue
    prop = name.split('-')[0]
    meta = {'seed': name, 'property': prop, 'origin': 'hand-made (see notes.md)' if name in HAND_MADE else 'fresh sub-agent given only the property text and its own worktree',
            'ported_to_fixed_tree': os.path.exists(os.path.join(d, 'patch.orig.diff'))}
    restore()
    if sh('git -C /repo diff --quiet').returncode != 0:
        print('repo not clean'); sys.exit(2)
    head = sh('git -C /repo rev-parse --short HEAD').stdout.strip()
    meta['repo_head'] = head
    ap = sh(f'git -C /repo apply {patch}')
    if ap.returncode != 0:
        meta.update(applies=False, status='does not apply to the fixed tree', note=NOTES.get(name, ''))
    else:
        meta['applies'] = True
        t = sh('cargo test --offline 2>&1 | grep -E "^test result"', cwd='/repo')
        passed = sum(int(m) for m in re.findall(r'(\d+) passed', t.stdout))
        failed = sum(int(m) for m in re.findall(r'(\d+) failed', t.stdout))
        meta['repo_tests_with_patch'] = {'passed': passed, 'failed': failed}
        c = sh(f'{ROOT}/check {prop} quick')
        out = c.stdout + c.stderr
        sigs = re.findall(r'signature: (.*)', out)
        meta['check'] = {'command': f'./check {prop} quick', 'exit': c.returncode, 'violation_signatures': len(set(sigs)), 'first_signatures': sorted(set(sigs))[:5]}
        if c.returncode == 1 and sigs:
            meta['status'] = 'caught'
        elif c.returncode == 0:
            meta['status'] = 'not reported'
            if name in NOTES:
                meta['note'] = NOTES[name]
        else:
            meta['status'] = f'check exit {c.returncode}'
    restore()
    json.dump(meta, open(os.path.join(d, 'meta.json'), 'w'), indent=1)
    rows.append(meta)
    print(name, meta['status'], meta.get('repo_tests_with_patch'), flush=True)

if not only:
    with open(os.path.join(SEEDS, 'RESULTS.md'), 'w') as f:
        f.write('# Seeded changes and what the checks say about them\n\n')
        f.write('Produced by tools/run_seeds.py on /repo HEAD %s. Every patch is applied with `git -C /repo apply`, the repository\'s own tests and the property\'s quick check are run, and /repo is restored.\n\n' % (rows[0]['repo_head'] if rows else ''))
        f.write('| seed | applies | repo tests with the patch | quick check | note |\n|---|---|---|---|---|\n')
        for m in rows:
            t = m.get('repo_tests_with_patch')
            f.write('| %s | %s | %s | %s | %s |\n' % (m['seed'], 'yes' + (' (ported)' if m['ported_to_fixed_tree'] else '') if m.get('applies') else 'no',
                    ('%d passed, %d failed' % (t['passed'], t['failed'])) if t else '-', m['status'] + (': ' + m['check']['first_signatures'][0] if m.get('check') and m['check']['first_signatures'] else ''), m.get('note', '')))
