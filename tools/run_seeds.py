#!/usr/bin/env python3
"""Runs every seeded change: does the patch apply to /repo's HEAD, does the repository's own test
suite still pass with it, and does the property's quick check report it. Writes seeded/<id>/meta.json
and seeded/RESULTS.md.

Two modes:
  tools/run_seeds.py [names...]            scratch worktrees of /repo (HEAD) under /tmp/rs/, N in parallel, through
                                           tools/wtcheck.sh (a private copy of the harness bound to the worktree);
                                           /repo is not touched
  tools/run_seeds.py --official [names...] the patch is applied to /repo itself (git -C /repo apply), ./check is run,
                                           /repo is restored (git checkout); sequential
  tools/run_seeds.py --report              rewrites RESULTS.md from the meta.json files
"""
import json, os, re, subprocess, sys, concurrent.futures, threading

ROOT = os.path.dirname(os.path.dirname(os.path.abspath(__file__)))
SEEDS = os.path.join(ROOT, 'seeded')
args = sys.argv[1:]
official = '--official' in args
report_only = '--report' in args
only = [a for a in args if not a.startswith('--')]
PAR = int(os.environ.get('RUN_SEEDS_PAR', '4'))


def sh(cmd, **kw):
    return subprocess.run(cmd, shell=True, capture_output=True, text=True, **kw)


NOTES = {
    'C06-B': 'neutralised by the fix 982ebab (arithmetic expressions are always cast to a numeric target): the patched branch is no longer reached',
    'C02-A': 'obsolete: it moved the PushRegisters / PopRegisters of FOR bodies, which the fix cdfc88a removed (limit and step are hidden variables now); C02-B covers the property on the current tree',
    'C15-B': 'obsolete: it instrumented the register frames of FOR bodies, which the fixes 511011f and cdfc88a removed; replaced by the hand-made C15-C',
    'C16-B': 'neutralised by the fix e9c09b1 (one PrintState per PRINT statement): the leaked format cursor no longer exists; on the pre-fix PRINT code the uhist group reports it; replaced by the hand-made C16-C',
    'C15-D': 'obsolete: it rearranged where the SELECT CASE subject is popped from the value stack; since the fix 9b22fbe the subject lives in a hidden variable and nothing is on the stack (C15-C, ported, and C15-F cover the property on the current tree)',
    'C15-E': 'obsolete: it rearranged where the SELECT CASE subject is popped from the value stack; since the fix 9b22fbe the subject lives in a hidden variable and nothing is on the stack',
}
HAND_MADE = {'C15-C', 'C16-C', 'C06-C'}


def base_meta(name):
    d = os.path.join(SEEDS, name)
    prop = name.split('-')[0]
    meta = {'seed': name, 'property': prop,
            'origin': 'hand-made (see notes.md)' if name in HAND_MADE else 'fresh sub-agent given only the property text and its own worktree',
            'ported_to_fixed_tree': os.path.exists(os.path.join(d, 'patch.orig.diff'))}
    cp = os.path.join(d, 'confirm.json')
    if os.path.isfile(cp):
        c = json.load(open(cp))
        meta['needs_to_manifest'] = c.get('needs_to_manifest', '')
        meta['confirmed_independently'] = c.get('confirmed_independently')
    return meta


def summarise_check(meta, out, rc, cmd):
    sigs = re.findall(r'signature: (.*)', out)
    meta['check'] = {'command': cmd, 'exit': rc, 'violation_signatures': len(set(sigs)), 'first_signatures': sorted(set(sigs))[:5]}
    if rc == 1 and sigs:
        meta['status'] = 'caught'
    elif rc == 0:
        meta['status'] = 'not reported'
    else:
        meta['status'] = f'check exit {rc}'


def tests(cwd):
    t = sh('cargo test --workspace --no-fail-fast --offline 2>&1 | grep -E "^test result"', cwd=cwd)
    return {'passed': sum(int(m) for m in re.findall(r'(\d+) passed', t.stdout)), 'failed': sum(int(m) for m in re.findall(r'(\d+) failed', t.stdout))}


def run_official(name):
    d = os.path.join(SEEDS, name)
    patch = os.path.join(d, 'patch.diff')
    meta = base_meta(name)
    restore = 'git -C /repo checkout -- . && git -C /repo clean -fdq -- rusty_basic rusty_parser rusty_linter rusty_pc rusty_variant rusty_bit_vec rusty_common'
    sh(restore)
    if sh('git -C /repo diff --quiet').returncode != 0:
        print('repo not clean'); sys.exit(2)
    meta['repo_head'] = sh('git -C /repo rev-parse --short HEAD').stdout.strip()
    meta['how'] = 'git -C /repo apply; cargo test in /repo; ./check <ID> quick; git -C /repo checkout -- .'
    if sh(f'git -C /repo apply {patch}').returncode != 0:
        meta.update(applies=False, status='does not apply to the fixed tree')
    else:
        meta['applies'] = True
        meta['repo_tests_with_patch'] = tests('/repo')
        c = sh(f'{ROOT}/check {meta["property"]} quick')
        summarise_check(meta, c.stdout + c.stderr, c.returncode, f'./check {meta["property"]} quick')
    sh(restore)
    return meta


slots = list(range(PAR))
slot_lock = threading.Lock()


def run_scratch(name):
    d = os.path.join(SEEDS, name)
    patch = os.path.join(d, 'patch.diff')
    meta = base_meta(name)
    with slot_lock:
        slot = slots.pop()
    try:
        wt = f'/tmp/rs/w{slot}'
        head = sh('git -C /repo rev-parse HEAD').stdout.strip()
        if not os.path.isdir(wt):
            os.makedirs('/tmp/rs', exist_ok=True)
            sh(f'git -C /repo worktree add --detach {wt} {head}')
        sh(f'git -C {wt} checkout -q -- . && git -C {wt} clean -fdq -- rusty_basic rusty_parser rusty_linter rusty_pc rusty_variant rusty_bit_vec rusty_common && git -C {wt} checkout -q --detach {head}')
        meta['repo_head'] = head[:7]
        meta['how'] = 'scratch worktree of /repo at HEAD: git apply; cargo test there; tools/wtcheck.sh (the harness rebuilt against the worktree) <ID> quick'
        if sh(f'git -C {wt} apply {patch}').returncode != 0:
            meta.update(applies=False, status='does not apply to the fixed tree')
        else:
            meta['applies'] = True
            ci = meta.get('confirmed_independently') or {}
            if os.environ.get('RUN_SEEDS_SKIP_TESTS') and ci.get('tests_passed') and ci.get('repo_head') == head[:7]:
                # the independent confirmation ran the whole suite with this patch on this very tree
                meta['repo_tests_with_patch'] = {'passed': int(ci['tests_passed']), 'failed': int(ci.get('tests_failed') or 0)}
            else:
                meta['repo_tests_with_patch'] = tests(wt)
            c = sh(f'WTCHECK_SCRATCH=/tmp/rs/c WTCHECK_LINES=400 {ROOT}/tools/wtcheck.sh {wt} {meta["property"]} quick')
            out = c.stdout + c.stderr
            m = re.search(r'exit=(\d+)', out)
            summarise_check(meta, out, int(m.group(1)) if m else c.returncode, f'./check {meta["property"]} quick')
            sh(f'git -C {wt} checkout -q -- .')
    finally:
        with slot_lock:
            slots.append(slot)
    return meta


def finish(meta):
    name = meta['seed']
    if name in NOTES and meta.get('status') != 'caught':
        meta['note'] = NOTES[name]
    json.dump(meta, open(os.path.join(SEEDS, name, 'meta.json'), 'w'), indent=1)
    print(name, meta.get('status'), meta.get('repo_tests_with_patch'), flush=True)


names = [n for n in sorted(os.listdir(SEEDS)) if os.path.isfile(os.path.join(SEEDS, n, 'patch.diff')) and (not only or n in only)]
if not report_only:
    if official:
        for n in names:
            finish(run_official(n))
    else:
        with concurrent.futures.ThreadPoolExecutor(max_workers=PAR) as ex:
            for meta in ex.map(run_scratch, names):
                finish(meta)

rows = []
for name in sorted(os.listdir(SEEDS)):
    mp = os.path.join(SEEDS, name, 'meta.json')
    if os.path.isfile(mp):
        rows.append(json.load(open(mp)))
with open(os.path.join(SEEDS, 'RESULTS.md'), 'w') as f:
    f.write('# Seeded changes and what the checks say about them\n\n')
    f.write('Produced by tools/run_seeds.py. Every patch is applied to a tree at /repo\'s HEAD (a scratch worktree, or /repo itself with --official), the repository\'s own tests and the property\'s quick check are run, and the tree is restored. `needs` is what the change needs in order to manifest.\n\n')
    f.write('| seed | tree | applies | repo tests with the patch | quick check | needs / note |\n|---|---|---|---|---|---|\n')
    for m in rows:
        t = m.get('repo_tests_with_patch')
        f.write('| %s | %s | %s | %s | %s | %s |\n' % (
            m['seed'], m.get('repo_head', ''), 'yes' + (' (ported)' if m.get('ported_to_fixed_tree') else '') if m.get('applies') else 'no',
            ('%d passed, %d failed' % (t['passed'], t['failed'])) if t else '-',
            m.get('status', '') + (': ' + m['check']['first_signatures'][0][:140] if m.get('check') and m['check']['first_signatures'] else ''),
            (m.get('needs_to_manifest') or '') + ((' — ' + m['note']) if m.get('note') else '')))
print('RESULTS.md written,', len(rows), 'seeds')
