#!/usr/bin/env python3
"""Copies confirmed sub-agent seeds from /tmp/wt/<ID>/SEED/seed<k>/ to /verif/seeded/<ID>-<letter>/ and
records the independent confirmation (tools/confirm_seed.sh) and what the change needs to manifest."""
import json, os, shutil, sys
NEEDS = json.load(open(os.path.join(os.path.dirname(__file__), 'seed_needs.json')))
LET = {1: 'E', 2: 'F', 3: 'G', 4: 'H', 5: 'I', 6: 'J', 7: 'K', 8: 'L', 9: 'M'}
for prop in sys.argv[1:]:
    for k in ((8, 9) if os.environ.get('ROUND6') else (6, 7) if os.environ.get('ROUND5') else (4, 5) if os.environ.get('ROUND4') else (3,) if os.environ.get('ROUND3') else (1, 2)):
        src = f'/tmp/wt/{prop}/SEED/seed{k}'
        name = f'{prop}-{LET[k]}'
        dst = f'/verif/seeded/{name}'
        if not os.path.isfile(src + '/confirm.json'):
            print(name, 'no confirmation yet'); continue
        conf = json.load(open(src + '/confirm.json'))
        os.makedirs(dst, exist_ok=True)
        for f in os.listdir(src):
            if f.startswith('test_') or f in ('tests.txt', 'confirm.json') or f.startswith('nest.'):
                continue
            shutil.copy(os.path.join(src, f), os.path.join(dst, f))
        extra = {
            'needs_to_manifest': NEEDS.get(name, ''),
            'confirmed_independently': {
                'how': 'tools/confirm_seed.sh: scratch worktree at /repo HEAD, demo run without and with the patch, whole repository test suite with the patch',
                'repo_head': conf.get('head'), 'applies': conf.get('applies'), 'demo_differs': conf.get('demo_differs'),
                'tests_passed': conf.get('tests_passed'), 'tests_failed': conf.get('tests_failed'),
                'demo_clean_tree': conf.get('demo_clean', '')[:600], 'demo_with_patch': conf.get('demo_patched', '')[:600],
            },
        }
        json.dump(extra, open(dst + '/confirm.json', 'w'), indent=1)
        print(name, 'imported', 'differs' if conf.get('demo_differs') else 'DEMO DOES NOT DIFFER', conf.get('tests_passed'), conf.get('tests_failed'))
