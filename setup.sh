#!/bin/sh
# Offline build of the verification harness (MANIFEST.setup_cmd).
set -e
ROOT=$(cd "$(dirname "$0")" && pwd)
export CARGO_NET_OFFLINE=true
mkdir -p "$ROOT/target" "$ROOT/evidence" "$ROOT/replays"
cd "$ROOT/harness"
cargo build --release --offline --target-dir "$ROOT/target"
echo "setup: harness built at $ROOT/target/release/vmain"
