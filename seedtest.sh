#!/bin/sh
# ./seedtest.sh <patch.diff> <ID> [tier]  — apply a seeded change to /repo, run the check, undo.
# Prints the check's protocol lines; exit status is the check's.
PATCH=$(realpath "$1"); ID="$2"; TIER="${3:-quick}"
if ! git -C /repo diff --quiet; then echo "seedtest: /repo has uncommitted changes, refusing" >&2; exit 2; fi
git -C /repo apply "$PATCH" || { echo "seedtest: patch does not apply" >&2; exit 2; }
trap 'git -C /repo checkout -- . ; git -C /repo clean -fdq -- rusty_basic rusty_parser rusty_linter rusty_pc rusty_variant rusty_bit_vec rusty_common' EXIT
/verif/check "$ID" "$TIER" > /verif/target/seedtest.out 2>&1
RC=$?
grep -E "^(VIOLATION|KNOWN-FINDING|MACHINERY|  signature|C[0-9]+ )" /verif/target/seedtest.out | cut -c1-300 | head -30
echo "exit=$RC"
exit $RC
