DECLARE FUNCTION Fib! (N!)
PRINT "Enter the number of fibonacci to calculate"
INPUT N
FOR I = 0 TO N
    PRINT "Fibonacci of", I, "is", Fib(I)
NEXT

FUNCTION Fib (N)
    IF N <= 1 THEN
        Fib = N
    ELSE
        Fib = Fib(N - 1) + Fib(N - 2)
    END IF
END FUNCTION
