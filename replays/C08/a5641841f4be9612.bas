TYPE T
  F AS INTEGER
END TYPE
DIM R AS T
DIM A(3)
S$ = "xyz"
H$ = CHR$(200) + "a" + CHR$(201)
N% = 2
D# = 3.5
DATA 1, "two", 3.5
ENVIRON "=B"
