OPEN "a.txt" FOR OUTPUT AS #1
PRINT #1, "p" + CHR$(200) + "q"
OPEN "a.txt" FOR RANDOM AS #1 LEN = 4
FIELD #1, 4 AS F1$
