ON ERROR GOTO Trap
F% = 0
OPEN "pre.txt" FOR RANDOM AS #2 LEN = 4
IF F% = 0 THEN FIELD #2, 4 AS F2$
F% = 0
NAME "a.txt" AS "b.txt"
PRINT "end"
END
Trap:
PRINT "E"; ERR
F% = 1
RESUME NEXT
