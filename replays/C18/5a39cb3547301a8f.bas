OPEN "pre.txt" FOR RANDOM AS #1 LEN = 4
FIELD #1, 4 AS F1$
GET #1, 1
PRINT "{"; F1$; "}"
INPUT #1, A$
PRINT "["; A$; "]"
