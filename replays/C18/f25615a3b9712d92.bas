OPEN "pre.txt" FOR RANDOM AS #1 LEN = 4
FIELD #1, 4 AS F1$
GET #1, 1
PRINT "{"; F1$; "}"
PRINT #1, "ab"
