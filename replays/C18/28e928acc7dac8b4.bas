OPEN "a.txt" FOR OUTPUT AS #1
KILL "pre.txt"
OPEN "pre.txt" FOR RANDOM AS #1 LEN = 4
FIELD #1, 4 AS F1$
