ON ERROR GOTO Trap
F% = 0
OPEN "a.txt" FOR OUTPUT AS #1
F% = 0
PRINT #1, "p" + CHR$(200) + "q"
PRINT "end"
END
Trap:
PRINT "E"; ERR
F% = 1
RESUME NEXT
