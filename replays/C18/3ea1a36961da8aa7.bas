OPEN "a.txt" FOR OUTPUT AS #1
PRINT #1, "p" + CHR$(200) + "q"
INPUT #1, A$
PRINT "["; A$; "]"
