OPEN "pre.txt" FOR APPEND AS #1
PRINT #1, "p" + CHR$(200) + "q"
PRINT EOF(2)
