LINE INPUT L$
PRINT "["; L$; "]"
