OPEN "a.txt" FOR OUTPUT AS #1
PRINT #1, "p" + CHR$(200) + "q"
LINE INPUT #1, L$
PRINT "["; L$; "]"
