OPEN "a.txt" FOR APPEND AS #1
OPEN "pre.txt" FOR RANDOM AS #2 LEN = 4
FIELD #2, 4 AS F2$
KILL "b.txt"
