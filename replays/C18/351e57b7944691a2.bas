OPEN "a.txt" FOR APPEND AS #2
PRINT #2, "p" + CHR$(200) + "q"
NAME "pre.txt" AS "b.txt"
PRINT "end"
