OPEN "pre.txt" FOR RANDOM AS #1 LEN = 4
FIELD #1, 4 AS F1$
LSET F1$ = "wxyz"
PUT #1, 1
NAME "a.txt" AS "b.txt"
