OPEN "a.txt" FOR OUTPUT AS #1
PRINT #1, "p" + CHR$(200) + "q"
CLOSE #1
PRINT "end"
