OPEN "pre.txt" FOR RANDOM AS #2 LEN = 4
FIELD #2, 4 AS F2$
GET #1, 1
PRINT "{"; F1$; "}"
