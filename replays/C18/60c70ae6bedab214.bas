OPEN "b.txt" FOR OUTPUT AS #2
PRINT #2, "p" + CHR$(200) + "q"
KILL "nodir/x.txt"
