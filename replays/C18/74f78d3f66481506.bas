OPEN "a.txt" FOR OUTPUT AS #1
OPEN "nodir/x.txt" FOR APPEND AS #1
