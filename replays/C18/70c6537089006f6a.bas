OPEN "a.txt" FOR OUTPUT AS #1
OPEN "pre.txt" FOR RANDOM AS #2 LEN = 4
FIELD #2, 4 AS F2$
INPUT #1, A$
PRINT "["; A$; "]"
