OPEN "pre.txt" FOR OUTPUT AS #1
PRINT #1, "p" + CHR$(200) + "q"
NAME "b.txt" AS "a.txt"
