' clear buffer
PRINT "Clearing input buffer..."
WHILE INKEY$ <> ""
