
            TYPE MyType
                Greeting AS STRING * 11
            END TYPE

            DIM A(1 TO 2) AS MyType

            OPEN "{}" FOR INPUT AS #1
            LINE INPUT #1, A(1).Greeting
            CLOSE
PRINT            
 A(1).Greeting
            