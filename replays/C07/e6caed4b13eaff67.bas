
        TYPE Card
            Value AS INTEGER
        END TYPE
        REDIM A(1 TO 2) AS Card
        FOR I = 1 TO 2
            A(I).Value 