CLS
PRINT "Only background color"
FOR I = 0 TO 15
    COLOR , I
    PRINT "background ", I
