CLS
PRINT "Hello, world!"
