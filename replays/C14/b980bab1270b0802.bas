CONST C = (32767 + 1) + "a"
PRINT C
