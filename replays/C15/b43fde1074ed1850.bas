FOR I = 1 TO 2: PRINT "a"; I: NEXT I: FOR J = 1 TO 2: PRINT "b"; J: NEXT J
PRINT "end"
