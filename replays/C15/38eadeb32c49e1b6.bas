
    ON ERROR GOTO ErrTrap
    DO
        I = I + 1
        PRINT I / (I - 1)
    LOOP WHILE I < 3
    END

    ErrTrap:
        RESUME NEXT
    