
        ON ERROR GOTO ErrTrap
        OPEN "whatever.txt" FOR INPUT AS #1
        CLOSE
        END

        ErrTrap:
            SELECT CASE ERR
            CASE 53
                PRINT "File not found"
            CASE ELSE
                PRINT "oops"
            END SELECT
            RESUME NEXT
        