I = 0: DO WHILE I < 2: I = I + 1: PRINT "a"; I: LOOP: J = 0: DO WHILE J < 2: J = J + 1: PRINT "b"; J: LOOP
PRINT "end"
