
        ON ERROR GOTO ErrTrap
        OPEN "whatever.txt" FOR INPUT AS #1
        CLOSE
        PRINT ERR
        END

        ErrTrap:
            PRINT ERR
            RESUME NEXT
        