I = 0: WHILE I < 2: I = I + 1: PRINT "a"; I: WEND: J = 0: WHILE J < 2: J = J + 1: PRINT "b"; J: WEND
PRINT "end"
