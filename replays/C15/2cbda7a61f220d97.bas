
    ON ERROR GOTO ErrHandler
    A = 6
    B = 0
    PRINT A / B
    END

    ErrHandler:
        B = 2
        RESUME Safety

    Safety:
        PRINT "saved by the bell"
    