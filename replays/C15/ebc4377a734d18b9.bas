
    ON ERROR GOTO ErrTrap
    FOR I = 1 TO 3
        PRINT I / (I - 1)
    NEXT
    END

    ErrTrap:
        RESUME NEXT
    