DECLARE SUB Grow ()
DECLARE SUB Show ()
REDIM SHARED A$(1 TO 3)
A$(1) = "v1"
Grow
PRINT "m"; LBOUND(A$); UBOUND(A$)
PRINT "m5"; "["; A$(5); "]"
Show
SUB Grow
  REDIM A$(5 TO 6)
  A$(5) = "v40"
  A$(6) = "v41"
  PRINT "g"; LBOUND(A$); UBOUND(A$)
END SUB
SUB Show
  PRINT "s"; UBOUND(A$); "["; A$(6); "]"
END SUB
