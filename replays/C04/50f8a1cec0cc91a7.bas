TYPE Box
  F AS STRING * 1
  K AS INTEGER
END TYPE
DIM H(1 TO 2) AS STRING * 1
H(1) = "qq"
DATA "xy"
READ H(2)
PRINT "["; H(2); "]"; LEN(H(2))
PRINT "["; H(1); "]"
