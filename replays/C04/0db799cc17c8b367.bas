TYPE Inner
  P AS LONG
  Q AS STRING * 2
END TYPE
TYPE Outer
  N AS INTEGER
  S AS STRING * 2
  I AS Inner
END TYPE
DIM A%(-2 TO -1, 0 TO 0, 1 TO 2)
A%(-2, 0, 1) = 1
A%(-2, 0, 2) = 2
A%(-1, 0, 1) = 3
A%(-1, 0, 2) = 4
PRINT "a"; "["; A%(-2, 0, 1); "]"
PRINT "a"; "["; A%(-2, 0, 2); "]"
PRINT "a"; "["; A%(-1, 0, 1); "]"
PRINT "a"; "["; A%(-1, 0, 2); "]"
A%(-1, 0, 2) = 53
A%(-1, 0, 1) = 52
A%(-2, 0, 2) = 51
A%(-2, 0, 1) = 50
PRINT "b"; "["; A%(-2, 0, 1); "]"
PRINT "b"; "["; A%(-2, 0, 2); "]"
PRINT "b"; "["; A%(-1, 0, 1); "]"
PRINT "b"; "["; A%(-1, 0, 2); "]"
PRINT LBOUND(A%, 1); UBOUND(A%, 1)
PRINT LBOUND(A%, 2); UBOUND(A%, 2)
PRINT LBOUND(A%, 3); UBOUND(A%, 3)
