TYPE Box
  F AS STRING * 3
  K AS INTEGER
END TYPE
DIM H(1 TO 2) AS STRING * 3
H(1) = "qq"
DATA ""
READ H(2)
PRINT "["; H(2); "]"; LEN(H(2))
PRINT "["; H(1); "]"
