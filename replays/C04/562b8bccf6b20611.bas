TYPE Inner
  P AS LONG
  Q AS STRING * 2
END TYPE
TYPE Outer
  N AS INTEGER
  S AS STRING * 2
  I AS Inner
END TYPE
DIM A%(2)
DIM R(2) AS Outer
DIM F(2) AS STRING * 3
A%(I1) = 5
R(I2).N = 6
R(I3).I.P = 7
F(I4%) = "ab"
PRINT A%(0); R(0).N; R(0).I.P; "["; F(0); "]"
PRINT A%(J1); R(J2&).N; J1; J2&
I2 = 2
R(I2).N = 8
R(I2 + K9).S = "xy"
PRINT R(2).N; "["; R(2).S; "]"; K9
