TYPE Inner
  P AS LONG
  Q AS STRING * 2
END TYPE
TYPE Outer
  N AS INTEGER
  S AS STRING * 2
  I AS Inner
END TYPE
DIM A%(-2 TO 0, 0 TO 0, 1 TO 3)
A%(-2, 0, 1) = 1
A%(-2, 0, 2) = 2
A%(-2, 0, 3) = 3
A%(-1, 0, 1) = 4
A%(-1, 0, 2) = 5
A%(-1, 0, 3) = 6
A%(0, 0, 1) = 7
A%(0, 0, 2) = 8
A%(0, 0, 3) = 9
PRINT "a"; "["; A%(-2, 0, 1); "]"
PRINT "a"; "["; A%(-2, 0, 2); "]"
PRINT "a"; "["; A%(-2, 0, 3); "]"
PRINT "a"; "["; A%(-1, 0, 1); "]"
PRINT "a"; "["; A%(-1, 0, 2); "]"
PRINT "a"; "["; A%(-1, 0, 3); "]"
PRINT "a"; "["; A%(0, 0, 1); "]"
PRINT "a"; "["; A%(0, 0, 2); "]"
PRINT "a"; "["; A%(0, 0, 3); "]"
A%(0, 0, 3) = 58
A%(0, 0, 2) = 57
A%(0, 0, 1) = 56
A%(-1, 0, 3) = 55
A%(-1, 0, 2) = 54
A%(-1, 0, 1) = 53
A%(-2, 0, 3) = 52
A%(-2, 0, 2) = 51
A%(-2, 0, 1) = 50
PRINT "b"; "["; A%(-2, 0, 1); "]"
PRINT "b"; "["; A%(-2, 0, 2); "]"
PRINT "b"; "["; A%(-2, 0, 3); "]"
PRINT "b"; "["; A%(-1, 0, 1); "]"
PRINT "b"; "["; A%(-1, 0, 2); "]"
PRINT "b"; "["; A%(-1, 0, 3); "]"
PRINT "b"; "["; A%(0, 0, 1); "]"
PRINT "b"; "["; A%(0, 0, 2); "]"
PRINT "b"; "["; A%(0, 0, 3); "]"
PRINT LBOUND(A%, 1); UBOUND(A%, 1)
PRINT LBOUND(A%, 2); UBOUND(A%, 2)
PRINT LBOUND(A%, 3); UBOUND(A%, 3)
