TYPE Box
  F AS STRING * 3
  K AS INTEGER
END TYPE
DECLARE SUB SetIt (P$)
DIM H(1 TO 2) AS STRING * 3
H(1) = "qq"
SetIt H(2)
PRINT "["; H(2); "]"; LEN(H(2))
PRINT "["; H(1); "]"
SUB SetIt (P$)
  P$ = "xyzw"
END SUB
