DEFINT A-Z
DEFINT A-Z
Aq% = 1
Aq& = 2
Aq! = 3
Aq# = 4
Aq$ = "s5"
PRINT aq
Bq% = 1
Bq& = 2
Bq! = 3
Bq# = 4
Bq$ = "s5"
PRINT BQ
Cq% = 1
Cq& = 2
Cq! = 3
Cq# = 4
Cq$ = "s5"
PRINT cq
Dq% = 1
Dq& = 2
Dq! = 3
Dq# = 4
Dq$ = "s5"
PRINT DQ
Eq% = 1
Eq& = 2
Eq! = 3
Eq# = 4
Eq$ = "s5"
PRINT eq
Fq% = 1
Fq& = 2
Fq! = 3
Fq# = 4
Fq$ = "s5"
PRINT FQ
Gq% = 1
Gq& = 2
Gq! = 3
Gq# = 4
Gq$ = "s5"
PRINT gq
Hq% = 1
Hq& = 2
Hq! = 3
Hq# = 4
Hq$ = "s5"
PRINT HQ
Iq% = 1
Iq& = 2
Iq! = 3
Iq# = 4
Iq$ = "s5"
PRINT iq
Jq% = 1
Jq& = 2
Jq! = 3
Jq# = 4
Jq$ = "s5"
PRINT JQ
Kq% = 1
Kq& = 2
Kq! = 3
Kq# = 4
Kq$ = "s5"
PRINT kq
Lq% = 1
Lq& = 2
Lq! = 3
Lq# = 4
Lq$ = "s5"
PRINT LQ
Mq% = 1
Mq& = 2
Mq! = 3
Mq# = 4
Mq$ = "s5"
PRINT mq
Nq% = 1
Nq& = 2
Nq! = 3
Nq# = 4
Nq$ = "s5"
PRINT NQ
Oq% = 1
Oq& = 2
Oq! = 3
Oq# = 4
Oq$ = "s5"
PRINT oq
Pq% = 1
Pq& = 2
Pq! = 3
Pq# = 4
Pq$ = "s5"
PRINT PQ
Qq% = 1
Qq& = 2
Qq! = 3
Qq# = 4
Qq$ = "s5"
PRINT qq
Rq% = 1
Rq& = 2
Rq! = 3
Rq# = 4
Rq$ = "s5"
PRINT RQ
Sq% = 1
Sq& = 2
Sq! = 3
Sq# = 4
Sq$ = "s5"
PRINT sq
Tq% = 1
Tq& = 2
Tq! = 3
Tq# = 4
Tq$ = "s5"
PRINT TQ
Uq% = 1
Uq& = 2
Uq! = 3
Uq# = 4
Uq$ = "s5"
PRINT uq
Vq% = 1
Vq& = 2
Vq! = 3
Vq# = 4
Vq$ = "s5"
PRINT VQ
Wq% = 1
Wq& = 2
Wq! = 3
Wq# = 4
Wq$ = "s5"
PRINT wq
Xq% = 1
Xq& = 2
Xq! = 3
Xq# = 4
Xq$ = "s5"
PRINT XQ
Yq% = 1
Yq& = 2
Yq! = 3
Yq# = 4
Yq$ = "s5"
PRINT yq
Zq% = 1
Zq& = 2
Zq! = 3
Zq# = 4
Zq$ = "s5"
PRINT ZQ
