DIM SHARED Z%
Z% = 0
ON ERROR GOTO H
Work
PRINT "back"
END
H:
PRINT "h"; ERR
Z% = 2
RESUME
SUB Work
PRINT "start"
IF 0 THEN
PRINT "then"
ELSEIF 0 THEN
PRINT "first elseif"
ELSEIF 6 / Z% = 3 THEN
PRINT "second elseif"
END IF
PRINT "done"; ERR
END SUB
