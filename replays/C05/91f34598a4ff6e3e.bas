DECLARE SUB Work ()
DIM SHARED A%(2)
DIM SHARED Z%, K%, IX%, M%, W%, X%, S$, HQ%, HZ%
Z% = 0
K% = 1
IX% = 5
M% = -1
ON ERROR GOTO H
Work
After:
PRINT "done"; ERR; W%; X%
END
H:
PRINT "h"; ERR
HQ% = 1 / HZ%
RESUME NEXT
SUB Work
  PRINT "a"; W%
  PRINT "b"; W%; ERR
  OPEN "missing.txt" FOR INPUT AS #1
END SUB
