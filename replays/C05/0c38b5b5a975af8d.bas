DIM A%(2)
GOSUB Rtn
PRINT "main"
END
Rtn:
PRINT "rtn"
S
PRINT "rtn2"
A%(1) = 5
RETURN
SUB S
PRINT "s"
RETURN
PRINT "not here"
END SUB
