DIM A%(2)
S
PRINT "main"
A%(1) = 5
RETURN
PRINT "not here"
END
SUB S
PRINT "s"
GOSUB Inner
PRINT "not here either"
EXIT SUB
Inner:
PRINT "inner"
EXIT SUB
END SUB
