FOR I1% = 1 TO 3
  FOR I2% = 11 TO 13
    FOR I3% = 21 TO 23
      PRINT "in"; I1%; I2%; I3%
      IF I3% = 22 THEN
        GOTO Out
      END IF
      PRINT "tail"
    NEXT
  NEXT
Out:
  PRINT "landed"; I1%; I2%; I3%
NEXT
PRINT "after"; I1%; I2%; I3%
