DIM SHARED A%(2)
DIM SHARED Z%, K%, IX%, M%, W%, X%, S$
Z% = 0
K% = 1
IX% = 5
M% = -1
ON ERROR RESUME NEXT
FOR I% = 1 TO 2
  PRINT "a"; W%
  PRINT "b"; W%; ERR
  OPEN "missing.txt" FOR INPUT AS #1
NEXT
After:
PRINT "done"; ERR; W%; X%
END
H:
PRINT "h"; ERR
RESUME NEXT
