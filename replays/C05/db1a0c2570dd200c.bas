DIM SHARED A%(2)
DIM SHARED Z%, K%, IX%, M%, W%, X%, S$, HQ%, HZ%
Z% = 0
K% = 1
IX% = 5
M% = -1
ON ERROR GOTO H
IF 0 THEN
  PRINT "then branch"
ELSE
  X% = 6 / Z%
  PRINT "a"; W%
  PRINT "b"; W%; ERR
END IF
After:
PRINT "done"; ERR; W%; X%
END
H:
PRINT "h"; ERR
HQ% = 1 / HZ%
RESUME NEXT
