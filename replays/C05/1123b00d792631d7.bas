DECLARE SUB Work ()
DIM A%(2)
PRINT "start"
Work
PRINT "back"
END
Target:
PRINT "target"
A%(1) = 1
END
SUB Work
  PRINT "work"
  GOSUB Loc
  GOTO Past
Loc:
  RETURN Target
Past:
END SUB
