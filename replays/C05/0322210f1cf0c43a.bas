DECLARE SUB First ()
DECLARE SUB Second ()
DIM A%(2)
PRINT "start"
First
PRINT "back"
SUB First
  PRINT "first"
  GOSUB Loc
  GOTO Past
Loc:
  RETURN Target
Past:
END SUB
SUB Second
  PRINT "second"
Target:
  PRINT "target"
END SUB
