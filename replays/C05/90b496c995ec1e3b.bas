PRINT "start"
B1:
N% = N% + 1
IF N% > 7 THEN
  PRINT "limit"
  END
END IF
PRINT "b1"; N%
B2:
N% = N% + 1
IF N% > 7 THEN
  PRINT "limit"
  END
END IF
PRINT "b2"; N%
RETURN
PRINT "fin"; N%
