DECLARE SUB Tail ()
DIM SHARED A%(2)
DIM SHARED Z%, K%, IX%, M%, W%, X%, S$, HQ%, HZ%
Z% = 0
K% = 1
IX% = 5
M% = -1
GOTO Start
H:
PRINT "h"; ERR
HQ% = 1 / HZ%
RESUME NEXT
Start:
ON ERROR GOTO H
PRINT "a"; W%
PRINT "b"; W%; ERR
X% = 32767 + K%
SUB Tail
  PRINT "a subprogram body ran without being called"
END SUB
