DIM A%(2)
M% = 42
ON ERROR GOTO H
S 0
PRINT "not here"
Cont:
PRINT "cont"; M%; ERR
A%(1) = 7
PRINT A%(1)
S 2
PRINT "end"
END
H:
PRINT "h"; ERR
RESUME Cont
SUB S (D%)
M% = 5
PRINT "s"; 10 / D%
END SUB
