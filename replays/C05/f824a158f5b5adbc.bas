DIM SHARED A%(2)
DIM SHARED Z%, K%, IX%, M%, W%, X%, S$
Z% = 0
K% = 1
IX% = 5
M% = -1
ON ERROR RESUME NEXT
WHILE C% < 2
  C% = C% + 1
  PRINT "a"; W%
  OPEN "missing.txt" FOR INPUT AS #1
  PRINT "b"; W%; ERR
WEND
After:
PRINT "done"; ERR; W%; X%
END
H:
PRINT "h"; ERR
RESUME NEXT
