DECLARE SUB Work ()
Work
PRINT "back"
SUB Work
  PRINT "start"
B1:
  N% = N% + 1
  IF N% > 7 THEN
    PRINT "limit"
    EXIT SUB
  END IF
  PRINT "b1"; N%
  EXIT SUB
B2:
  N% = N% + 1
  IF N% > 7 THEN
    PRINT "limit"
    EXIT SUB
  END IF
  PRINT "b2"; N%
  RETURN B1
  PRINT "fin"; N%
END SUB
