FOR I1% = 1 TO 3
  FOR I2% = 11 TO 13
    PRINT "in"; I1%; I2%
    IF I2% = 12 THEN
      GOTO Out
    END IF
    PRINT "tail"
  NEXT
Out:
  PRINT "landed"; I1%; I2%
NEXT
PRINT "after"; I1%; I2%
