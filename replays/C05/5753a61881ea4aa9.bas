DECLARE FUNCTION WorkF% (P%)
DIM SHARED A%(2)
DIM SHARED Z%, K%, IX%, M%, W%, X%, S$, HQ%, HZ%
Z% = 0
K% = 1
IX% = 5
M% = -1
ON ERROR GOTO H
PRINT "f"; WorkF%(1)
After:
PRINT "done"; ERR; W%; X%
END
H:
PRINT "h"; ERR
HQ% = 1 / HZ%
RESUME NEXT
FUNCTION WorkF% (P%)
  PRINT "a"; W%
  PRINT "b"; W%; ERR
  S$ = "<" + LEFT$("abc", M%)
  WorkF% = 7
END FUNCTION
