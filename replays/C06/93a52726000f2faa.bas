OPEN "n.txt" FOR OUTPUT AS #1
PRINT #1, "inf"
CLOSE
OPEN "n.txt" FOR INPUT AS #1
INPUT #1, T#
U# = T# + 0
PRINT "ok"
