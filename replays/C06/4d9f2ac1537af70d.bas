INPUT T#
U# = T# + 0
PRINT "ok"
