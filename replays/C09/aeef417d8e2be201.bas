

            oN   eRrOr   gOtO   eRrHaNdLeR ' c

            a   =   6 ' c

            b   =   0 ' c

            pRiNt   a   /   b ' c

            eNd ' c



            eRrHaNdLeR: ' c

                        b   =   2 ' c

                        rEsUmE ' c

            