

            tYpE   cArD ' c

                        sUiT   aS   sTrInG   *   10 ' c

                        vAlUe   aS   iNtEgEr ' c

            eNd   tYpE ' c

            dIm   x   aS   cArD ' c

            