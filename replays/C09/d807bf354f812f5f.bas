qZx = 1
qzx = qZx + 1
PRINT qZx
vz$ = "s"
pRiNt vz$; vZ$
GOTO lZb
PRINT "skipped"
lZb:
pzr 2
pRiNt fzn(3)
dIm azr(2)
aZr(1) = 5
PRINT aZr(1)
SUB pZr (xz)
pRiNt xz
eNd SUB
fUnCtIoN fzn (yZ)
fzn = yZ * 2
END fUnCtIoN
