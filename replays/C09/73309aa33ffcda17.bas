
        oPeN "TEST3.TXT" fOr aPpEnD aS #1
        pRiNt #1, "Hello, world"
        pRiNt #1, "Hello, again"
        cLoSe #1
        oPeN "TEST3.TXT" fOr iNpUt aS #1
        wHiLe nOt eOf(1)
        lInE iNpUt #1, t$
        pRiNt t$
        wEnD
        cLoSe #1
        