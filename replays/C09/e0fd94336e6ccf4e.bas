
        OPEN "TEST3.TXT" FOR APPEND AS #1
        PRINT #1, "Hello, world" :         PRINT #1, "Hello, again"
        CLOSE #1
        OPEN "TEST3.TXT" FOR INPUT AS #1
        WHILE NOT EOF(1)
        LINE INPUT #1, T$
        PRINT T$
        WEND
        CLOSE #1
        