
        open "rnd1.txt" for random as #1 len = 64
        field #1, 10 as firstname$, 20 as lastname$
        lset firstname$ = "Nikos"
        lset lastname$ = "Georgiou"
        put #1, 1
        close
        