
    TYPE Card ' c
        Suit AS STRING * 10 ' c
        Value AS INTEGER ' c
    END TYPE ' c
    DIM X AS Card ' c
    