
        open "rnd2.txt" FOR random AS #1 len = 15
        FIELD #1, 10 as FirstName$, 5 as LastName$
        lset FirstName$ = "Nikos"
        lset LastName$ = "Georgiou"
        put #1, 1
        LSET firstname$ = "Someone"
        LSET lastname$ = "Else"
        PUT #1, 2
        get #1, 1
        PRINT firstname$; LastName$
        close
        