
    ON ERROR GOTO ErrHandler ' c
    A = 6 ' c
    B = 0 ' c
    PRINT A / B ' c
    END ' c

    ErrHandler: ' c
        B = 2 ' c
        RESUME ' c
    