QZX = 1
qzx = QZX + 1
PRINT QZX
vz$ = "s"
PRINT vz$; VZ$
GOTO LZB
PRINT "skipped"
LZB:
pzr 2
PRINT fzn(3)
DIM azr(2)
AZR(1) = 5
PRINT AZR(1)
SUB PZR (xz)
PRINT xz
END SUB
FUNCTION fzn (YZ)
fzn = YZ * 2
END FUNCTION
