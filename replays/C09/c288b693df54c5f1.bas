IF I >= 0 THEN J = 0 :  WHILE J < 2 :  J = J + 1 :  PRINT I; J :  WEND
PRINT "end"
