
        OPEN "rnd1.txt" FOR RANDOM AS #1 LEN = 64
        FIELD #1, 10 AS FIRSTNAME$, 20 AS LASTNAME$
        LSET FIRSTNAME$ = "Nikos"
        LSET LASTNAME$ = "Georgiou"
        PUT #1, 1
        CLOSE
        