
        oPeN "rnd1.txt" fOr rAnDoM aS #1 lEn = 64
        fIeLd #1, 10 aS fIrStNaMe$, 20 aS lAsTnAmE$
        lSeT fIrStNaMe$ = "Nikos"
        lSeT lAsTnAmE$ = "Georgiou"
        pUt #1, 1
        cLoSe
        