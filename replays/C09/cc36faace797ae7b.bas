
        OPEN "TEST3.TXT" FOR APPEND AS #1 ' c
        PRINT #1, "Hello, world" ' c
        PRINT #1, "Hello, again" ' c
        CLOSE #1 ' c
        OPEN "TEST3.TXT" FOR INPUT AS #1 ' c
        WHILE NOT EOF(1) ' c
        LINE INPUT #1, T$ ' c
        PRINT T$ ' c
        WEND ' c
        CLOSE #1 ' c
        