qzx = 1
qzx = qzx + 1
PRINT qzx
vz$ = "s"
PRINT VZ$; vz$
goto lzb
PRINT "skipped"
lzb:
pzr 2
PRINT FZN(3)
DIM azr(2)
azr(1) = 5
PRINT azr(1)
sub pzr (XZ)
PRINT xz
END SUB
FUNCTION fzn (yz)
FZN = yz * 2
end FUNCTION
