qzx = 1
QZX = qzx + 1
PRINT qzx
VZ$ = "s"
print VZ$; vz$
GOTO lzb
PRINT "skipped"
lzb:
PZR 2
print FZN(3)
dim AZR(2)
azr(1) = 5
PRINT azr(1)
SUB pzr (XZ)
print XZ
end SUB
function FZN (yz)
FZN = yz * 2
END function
