
        open "TEST3.TXT" for append as #1
        print #1, "Hello, world"
        print #1, "Hello, again"
        close #1
        open "TEST3.TXT" for input as #1
        while not eof(1)
        line input #1, t$
        print t$
        wend
        close #1
        