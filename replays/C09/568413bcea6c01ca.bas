
        open "rnd1.txt" FOR random AS #1 len = 64
        FIELD #1, 10 as FIRSTNAME$, 20 as LASTNAME$
        lset FIRSTNAME$ = "Nikos"
        lset LASTNAME$ = "Georgiou"
        put #1, 1
        CLOSE
        