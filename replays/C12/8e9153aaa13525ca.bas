
        DEFINT AZq-ZZq
        DATA 1, 2, 3, 4
        DIM AZq(1 TO 2)
        DEF SEG = VARSEG(AZq(1))
        FOR IZq = 1 TO 4
            READ XZq
            POKE VARPTR(AZq(1)) + IZq - 1, XZq
        NEXT
        DEF SEG
        PRINT AZq(1)
        PRINT AZq(2)
        