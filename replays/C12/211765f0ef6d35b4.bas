
            DEFINT AZq-ZZq
            DIM AZq
            DIM AZq%
            