OPEN "f1.txt" FOR OUTPUT AS #1
OPEN "f2.txt" FOR OUTPUT AS #2
S13$ = "abcdefghijklm"
S14$ = "abcdefghijklmn"
S15$ = "abcdefghijklmno"
CR$ = "a" + CHR$(13) + "b"
LF$ = "a" + CHR$(10)
CRLF$ = "a" + CHR$(13) + CHR$(10) + "b"
D# = -7
L& = 2147483647
I% = -32768
Q! = 2.5
PRINT "ab" ;
PRINT "ab" ,
PRINT , "|"
LPRINT , "|"
PRINT #1, , "|"
PRINT #2, , "|"
CLOSE
