S$ = "aaaB"
N0% = 1
PRINT "["; INSTR(N0%, S$, "aaB"); "]"
