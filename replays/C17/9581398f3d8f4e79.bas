PRINT LEN(RTRIM$(CHR$(9) + " a " + CHR$(9)))
