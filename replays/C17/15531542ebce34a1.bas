S$ = "BBBa"
N0% = 1
PRINT "["; INSTR(N0%, S$, "BBa"); "]"
