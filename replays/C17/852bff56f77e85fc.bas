S$ = " "
PRINT "["; RTRIM$(S$); "]"
