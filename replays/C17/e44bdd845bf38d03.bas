PRINT LEN(LTRIM$(CHR$(9) + " a " + CHR$(9)))
