S$ = "BBBa"
PRINT "["; INSTR(S$, "BBa"); "]"
