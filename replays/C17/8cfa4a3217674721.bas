S$ = "aaaB"
PRINT "["; INSTR(S$, "aaB"); "]"
