PRINT "["; RTRIM$("  "); "]"
