PRINT "["; SPACE$(-1); "]"
