S$ = "   "
PRINT "["; RTRIM$(S$); "]"
