PRINT "["; RTRIM$("    "); "]"
