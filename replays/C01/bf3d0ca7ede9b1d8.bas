SELECT CASE T% MOD 3
CASE 0
  LET T% = T% + 1
  PRINT "1a"; T%
CASE 1
  LET T% = T% + 1
  PRINT "1b"; T%
CASE ELSE
  LET T% = T% + 1
  PRINT "1e"; T%
END SELECT
LET S2% = 2
FOR C2% = 1 TO 4 STEP S2%
  LET T% = T% + 1
  PRINT "2f"; T%
NEXT C2%
PRINT "2x"; C2%
PRINT "end"; T%
