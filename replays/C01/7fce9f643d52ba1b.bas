C1% = 0
DO: C1% = C1% + 1: T% = T% + 1: PRINT "1w"; T%: LOOP WHILE C1% < 2
SELECT CASE T% MOD 3: CASE 0: T% = T% + 1: PRINT "2a"; T%: CASE 1: T% = T% + 1: PRINT "2b"; T%: CASE ELSE: T% = T% + 1: PRINT "2e"; T%: END SELECT
PRINT "end"; T%
