DECLARE SUB Work ()
CALL Work
PRINT "back"
SUB Work
  LET S1% = -2
  FOR C1% = 4 TO 1 STEP S1%
    LET T% = T% + 1
    PRINT "1f"; T%
  NEXT
  PRINT "1x"; C1%
  FOR C2% = 2 TO 1 STEP -1
    LET T% = T% + 1
    PRINT "2f"; T%
  NEXT C2%
  PRINT "2x"; C2%
  PRINT "end"; T%
END SUB
