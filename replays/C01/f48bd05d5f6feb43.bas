X# = 0.0 * -3
PRINT X#
