X# = 0.0# * -.5#
PRINT X#
