DECLARE SUB Work ()
CALL Work
PRINT "back"
SUB Work
  IF T% MOD 2 = 0 THEN
    LET T% = T% + 1
    PRINT "1t"; T%
  END IF
  LET C2% = 0
  DO
    LET C2% = C2% + 1
    LET T% = T% + 1
    PRINT "2w"; T%
  LOOP UNTIL C2% >= 2
  PRINT "end"; T%
END SUB
