SELECT CASE T% MOD 3: CASE 0: T% = T% + 1: PRINT "1a"; T%: FOR C2% = 2 TO 1 STEP -1: T% = T% + 1: PRINT "2f"; T%: NEXT C2%: PRINT "2x"; C2%: CASE 1: T% = T% + 1: PRINT "1b"; T%: CASE ELSE: T% = T% + 1: PRINT "1e"; T%: END SELECT
PRINT "end"; T%
