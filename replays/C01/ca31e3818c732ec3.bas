LET C1% = 0
DO
  LET C1% = C1% + 1
  LET T% = T% + 1
  PRINT "1w"; T%
  FOR C2% = 2 TO 1 STEP -1
    LET T% = T% + 1
    PRINT "2f"; T%
  NEXT C2%
  PRINT "2x"; C2%
LOOP UNTIL C1% >= 2
PRINT "end"; T%
