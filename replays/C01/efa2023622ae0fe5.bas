SELECT CASE T% MOD 7: CASE 0 TO 1: T% = T% + 1: PRINT "1a"; T%: FOR C2% = 1 TO 4 STEP 2: T% = T% + 1: PRINT "2f"; T%: NEXT C2%: PRINT "2x"; C2%: CASE IS > 5: T% = T% + 1: PRINT "1b"; T%: CASE 2, 3 TO 3, 4: T% = T% + 1: PRINT "1c"; T%: CASE ELSE: T% = T% + 1: PRINT "1e"; T%: END SELECT
PRINT "end"; T%
