DECLARE SUB Work ()
CALL Work
PRINT "back"
SUB Work
  FOR C1% = 1 TO 4 STEP 2
    LET T% = T% + 1
    PRINT "1f"; T%
    LET S2% = 2
    FOR C2% = 1 TO 4 STEP S2%
      LET T% = T% + 1
      PRINT "2f"; T%
    NEXT C2%
    PRINT "2x"; C2%
  NEXT
  PRINT "1x"; C1%
  PRINT "end"; T%
END SUB
