X# = 0.0 * -.25
PRINT X#
