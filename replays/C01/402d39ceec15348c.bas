SELECT CASE T% MOD 3
CASE 0
  LET T% = T% + 1
  PRINT "1a"; T%
CASE 1
  LET T% = T% + 1
  PRINT "1b"; T%
CASE ELSE
  LET T% = T% + 1
  PRINT "1e"; T%
END SELECT
SELECT CASE T% MOD 7
CASE 0 TO 1
  LET T% = T% + 1
  PRINT "2a"; T%
CASE IS > 5
  LET T% = T% + 1
  PRINT "2b"; T%
CASE 2, 3 TO 3, 4
  LET T% = T% + 1
  PRINT "2c"; T%
CASE ELSE
  LET T% = T% + 1
  PRINT "2e"; T%
END SELECT
PRINT "end"; T%
