READ V0%
READ V1$
DATA 5, xy
PRINT "["; V0%; "]"
PRINT "["; V1$; "]"
