LET C1% = 0
DO
  LET C1% = C1% + 1
  LET T% = T% + 1
  PRINT "1w"; T%
LOOP UNTIL C1% >= 2
PRINT "end"; T%
