DATA "a b"
READ V0$, V1%
IF 0 THEN
  DATA 70000
END IF
PRINT "["; V0$; "]"
PRINT "["; V1%; "]"
