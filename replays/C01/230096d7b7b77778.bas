PRINT 0.0# * -3
