FOR C1% = 2 TO 1 STEP -1
  LET T% = T% + 1
  PRINT "1f"; T%
NEXT
PRINT "1x"; C1%
LET S2% = 2
FOR C2% = 1 TO 4 STEP S2%
  LET T% = T% + 1
  PRINT "2f"; T%
NEXT C2%
PRINT "2x"; C2%
PRINT "end"; T%
