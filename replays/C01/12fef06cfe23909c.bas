C1% = 0
DO UNTIL C1% >= 2
  C1% = C1% + 1
  T% = T% + 1
  PRINT "1w"; T%
LOOP
IF T% MOD 4 = 0 THEN
  T% = T% + 1
  PRINT "2t"; T%
ELSEIF T% MOD 4 = 1 THEN
  T% = T% + 1
  PRINT "2m"; T%
ELSEIF T% MOD 4 = 2 THEN
  T% = T% + 1
  PRINT "2n"; T%
ELSE
  T% = T% + 1
  PRINT "2e"; T%
END IF
FOR C3% = 1 TO 2
  T% = T% + 1
  PRINT "3f"; T%
NEXT
PRINT "3x"; C3%
PRINT "end"; T%
