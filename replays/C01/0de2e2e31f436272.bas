FOR C1% = 2 TO 1 STEP -1
  LET T% = T% + 1
  PRINT "1f"; T%
NEXT
PRINT "1x"; C1%
PRINT "end"; T%
