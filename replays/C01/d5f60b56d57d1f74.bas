DECLARE SUB Work ()
CALL Work
PRINT "back"
SUB Work
  LET C1% = 0
  DO
    LET C1% = C1% + 1
    LET T% = T% + 1
    PRINT "1w"; T%
    LET T% = T% + 1
    IF T% MOD 2 = 1 THEN PRINT "2t"; T% ELSE PRINT "2e"; T%
  LOOP UNTIL C1% >= 2
  PRINT "end"; T%
END SUB
