SELECT CASE T% MOD 3
CASE 0
  LET T% = T% + 1
  PRINT "1a"; T%
CASE 1
  LET T% = T% + 1
  PRINT "1b"; T%
CASE ELSE
  LET T% = T% + 1
  PRINT "1e"; T%
END SELECT
IF T% MOD 2 = 0 THEN
  LET T% = T% + 1
  PRINT "2t"; T%
ELSE
  LET T% = T% + 1
  PRINT "2e"; T%
END IF
PRINT "end"; T%
