FOR C1% = 2 TO 1 STEP -1
  LET T% = T% + 1
  PRINT "1f"; T%
NEXT
PRINT "1x"; C1%
LET C2% = 0
WHILE C2% < 2
  LET C2% = C2% + 1
  LET T% = T% + 1
  PRINT "2w"; T%
WEND
PRINT "end"; T%
