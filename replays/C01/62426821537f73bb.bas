READ V0&, V1$
DATA 5, xy
PRINT "["; V0&; "]"
PRINT "["; V1$; "]"
