DATA xy, 5
READ V0$, V1%
PRINT "["; V0$; "]"
PRINT "["; V1%; "]"
