L! = 0.0
R& = 1
X& = L! MOD R&
PRINT X&
