IF T% MOD 2 = 0 THEN
  T% = T% + 1
  PRINT "1t"; T%
  FOR C2% = 2 TO 1 STEP -1
    T% = T% + 1
    PRINT "2f"; T%
    IF T% MOD 4 = 0 THEN
      T% = T% + 1
      PRINT "3t"; T%
    ELSEIF T% MOD 4 = 1 THEN
      T% = T% + 1
      PRINT "3m"; T%
    ELSEIF T% MOD 4 = 2 THEN
      T% = T% + 1
      PRINT "3n"; T%
    ELSE
      T% = T% + 1
      PRINT "3e"; T%
    END IF
  NEXT C2%
  PRINT "2x"; C2%
END IF
PRINT "end"; T%
