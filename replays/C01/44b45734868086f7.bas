IF T% MOD 2 = 0 THEN
  LET T% = T% + 1
  PRINT "1t"; T%
ELSE
  LET T% = T% + 1
  PRINT "1e"; T%
END IF
FOR C2% = 2 TO 1 STEP -1
  LET T% = T% + 1
  PRINT "2f"; T%
NEXT C2%
PRINT "2x"; C2%
PRINT "end"; T%
