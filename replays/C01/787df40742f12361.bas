DECLARE SUB Work ()
CALL Work
PRINT "back"
SUB Work
  SELECT CASE T% MOD 7
  CASE 0 TO 1
    LET T% = T% + 1
    PRINT "1a"; T%
  CASE IS > 5
    LET T% = T% + 1
    PRINT "1b"; T%
  CASE 2, 3 TO 3, 4
    LET T% = T% + 1
    PRINT "1c"; T%
  CASE ELSE
    LET T% = T% + 1
    PRINT "1e"; T%
  END SELECT
  FOR C2% = 2 TO 1 STEP -1
    LET T% = T% + 1
    PRINT "2f"; T%
  NEXT C2%
  PRINT "2x"; C2%
  PRINT "end"; T%
END SUB
