IF T% MOD 2 = 0 THEN
  LET T% = T% + 1
  PRINT "1t"; T%
ELSE
  LET T% = T% + 1
  PRINT "1e"; T%
END IF
LET T% = T% + 1
IF T% MOD 2 = 1 THEN PRINT "2t"; T% ELSE PRINT "2e"; T%
PRINT "end"; T%
