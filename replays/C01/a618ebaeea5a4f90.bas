IF T% MOD 4 = 0 THEN
  LET T% = T% + 1
  PRINT "1t"; T%
  FOR C2% = 1 TO 2
    LET T% = T% + 1
    PRINT "2f"; T%
  NEXT C2%
  PRINT "2x"; C2%
ELSEIF T% MOD 4 = 1 THEN
  LET T% = T% + 1
  PRINT "1m"; T%
ELSEIF T% MOD 4 = 2 THEN
  LET T% = T% + 1
  PRINT "1n"; T%
ELSE
  LET T% = T% + 1
  PRINT "1e"; T%
END IF
PRINT "end"; T%
