DECLARE SUB Work ()
CALL Work
PRINT "back"
SUB Work
  FOR C1% = 1 TO 4 STEP 2
    LET T% = T% + 1
    PRINT "1f"; T%
    LET T% = T% + 1
    IF T% MOD 2 = 1 THEN PRINT "2t"; T% ELSE PRINT "2e"; T%
  NEXT
  PRINT "1x"; C1%
  PRINT "end"; T%
END SUB
