L& = 0
R& = 100000
X& = L& AND R&
PRINT X&
