C1% = 0
WHILE C1% < 2
  C1% = C1% + 1
  T% = T% + 1
  PRINT "1w"; T%
WEND
IF T% MOD 4 = 0 THEN
  T% = T% + 1
  PRINT "2t"; T%
  IF T% MOD 4 = 0 THEN
    T% = T% + 1
    PRINT "3t"; T%
  ELSEIF T% MOD 4 = 1 THEN
    T% = T% + 1
    PRINT "3m"; T%
  ELSEIF T% MOD 4 = 2 THEN
    T% = T% + 1
    PRINT "3n"; T%
  ELSE
    T% = T% + 1
    PRINT "3e"; T%
  END IF
ELSEIF T% MOD 4 = 1 THEN
  T% = T% + 1
  PRINT "2m"; T%
ELSEIF T% MOD 4 = 2 THEN
  T% = T% + 1
  PRINT "2n"; T%
ELSE
  T% = T% + 1
  PRINT "2e"; T%
END IF
PRINT "end"; T%
