L& = 1
R& = -70000
X# = (L& OR R&)
PRINT X#
