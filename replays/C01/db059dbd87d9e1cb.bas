DECLARE SUB Work ()
CALL Work
PRINT "back"
SUB Work
  FOR C1% = 2 TO 1 STEP -1
    LET T% = T% + 1
    PRINT "1f"; T%
  NEXT
  PRINT "1x"; C1%
  SELECT CASE T% MOD 7
  CASE 0 TO 1
    LET T% = T% + 1
    PRINT "2a"; T%
  CASE IS > 5
    LET T% = T% + 1
    PRINT "2b"; T%
  CASE 2, 3 TO 3, 4
    LET T% = T% + 1
    PRINT "2c"; T%
  CASE ELSE
    LET T% = T% + 1
    PRINT "2e"; T%
  END SELECT
  PRINT "end"; T%
END SUB
