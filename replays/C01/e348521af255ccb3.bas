DATA 5, xy
READ V0%, V1$
READ Z%
PRINT "["; V0%; "]"
PRINT "["; V1$; "]"
