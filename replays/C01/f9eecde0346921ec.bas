C1% = 0
WHILE C1% < 2
  C1% = C1% + 1
  T% = T% + 1
  PRINT "1w"; T%
  FOR C2% = 1 TO 4 STEP 2
    T% = T% + 1
    PRINT "2f"; T%
  NEXT C2%
  PRINT "2x"; C2%
WEND
IF T% MOD 4 = 0 THEN
  T% = T% + 1
  PRINT "3t"; T%
ELSEIF T% MOD 4 = 1 THEN
  T% = T% + 1
  PRINT "3m"; T%
ELSEIF T% MOD 4 = 2 THEN
  T% = T% + 1
  PRINT "3n"; T%
ELSE
  T% = T% + 1
  PRINT "3e"; T%
END IF
PRINT "end"; T%
