DECLARE SUB Work ()
CALL Work
PRINT "back"
SUB Work
  FOR C1% = 2 TO 1 STEP -1
    LET T% = T% + 1
    PRINT "1f"; T%
  NEXT
  PRINT "1x"; C1%
  IF T% MOD 2 = 0 THEN
    LET T% = T% + 1
    PRINT "2t"; T%
  END IF
  PRINT "end"; T%
END SUB
