IF T% MOD 4 = 0 THEN
  LET T% = T% + 1
  PRINT "1t"; T%
  SELECT CASE T% MOD 3
  CASE 0
    LET T% = T% + 1
    PRINT "2a"; T%
  CASE 1
    LET T% = T% + 1
    PRINT "2b"; T%
  CASE ELSE
    LET T% = T% + 1
    PRINT "2e"; T%
  END SELECT
ELSEIF T% MOD 4 = 1 THEN
  LET T% = T% + 1
  PRINT "1m"; T%
ELSEIF T% MOD 4 = 2 THEN
  LET T% = T% + 1
  PRINT "1n"; T%
ELSE
  LET T% = T% + 1
  PRINT "1e"; T%
END IF
PRINT "end"; T%
