SELECT CASE T% MOD 7: CASE 0 TO 1: T% = T% + 1: PRINT "1a"; T%: C2% = 0: DO: C2% = C2% + 1: T% = T% + 1: PRINT "2w"; T%: LOOP UNTIL C2% >= 2: CASE IS > 5: T% = T% + 1: PRINT "1b"; T%: CASE 2, 3 TO 3, 4: T% = T% + 1: PRINT "1c"; T%: CASE ELSE: T% = T% + 1: PRINT "1e"; T%: END SELECT
PRINT "end"; T%
