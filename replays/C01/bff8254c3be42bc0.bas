L% = -3
R& = -70000
FOR K% = 1 TO (L% OR R&)
NEXT
PRINT K%
