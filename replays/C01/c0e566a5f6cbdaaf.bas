DECLARE SUB Work ()
CALL Work
PRINT "back"
SUB Work
  SELECT CASE T% MOD 3
  CASE 0
    LET T% = T% + 1
    PRINT "1a"; T%
  CASE 1
    LET T% = T% + 1
    PRINT "1b"; T%
  CASE ELSE
    LET T% = T% + 1
    PRINT "1e"; T%
  END SELECT
  IF T% MOD 4 = 0 THEN
    LET T% = T% + 1
    PRINT "2t"; T%
  ELSEIF T% MOD 4 = 1 THEN
    LET T% = T% + 1
    PRINT "2m"; T%
  ELSEIF T% MOD 4 = 2 THEN
    LET T% = T% + 1
    PRINT "2n"; T%
  ELSE
    LET T% = T% + 1
    PRINT "2e"; T%
  END IF
  PRINT "end"; T%
END SUB
