FOR C1% = 1 TO 2
  LET T% = T% + 1
  PRINT "1f"; T%
  SELECT CASE T% MOD 3
  CASE 0
    LET T% = T% + 1
    PRINT "2a"; T%
  CASE 1
    LET T% = T% + 1
    PRINT "2b"; T%
  CASE ELSE
    LET T% = T% + 1
    PRINT "2e"; T%
  END SELECT
NEXT
PRINT "1x"; C1%
PRINT "end"; T%
