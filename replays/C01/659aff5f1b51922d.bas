LET C1% = 0
DO WHILE C1% < 2
  LET C1% = C1% + 1
  LET T% = T% + 1
  PRINT "1w"; T%
LOOP
PRINT "end"; T%
