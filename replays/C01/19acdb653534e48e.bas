READ V0$, V1$
DATA "a b", xy
PRINT "["; V0$; "]"
PRINT "["; V1$; "]"
