LET S1% = -2
FOR C1% = 4 TO 1 STEP S1%
  LET T% = T% + 1
  PRINT "1f"; T%
NEXT
PRINT "1x"; C1%
PRINT "end"; T%
