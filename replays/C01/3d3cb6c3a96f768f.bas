DECLARE SUB Work ()
CALL Work
PRINT "back"
SUB Work
  IF T% MOD 2 = 0 THEN
    LET T% = T% + 1
    PRINT "1t"; T%
  END IF
  LET C2% = 0
  WHILE C2% < 2
    LET C2% = C2% + 1
    LET T% = T% + 1
    PRINT "2w"; T%
  WEND
  PRINT "end"; T%
END SUB
