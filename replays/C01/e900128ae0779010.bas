L& = -70000
R# = 8.0#
PRINT L& AND R#
