PRINT 0.0 * -.5#
