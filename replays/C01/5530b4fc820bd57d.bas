IF T% MOD 2 = 0 THEN
  LET T% = T% + 1
  PRINT "1t"; T%
END IF
IF T% MOD 2 = 0 THEN
  LET T% = T% + 1
  PRINT "2t"; T%
ELSE
  LET T% = T% + 1
  PRINT "2e"; T%
END IF
PRINT "end"; T%
