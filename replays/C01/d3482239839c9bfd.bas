L# = 0.0#
R& = 1
IF L# MOD R& THEN
  PRINT "t"
ELSE
  PRINT "f"
END IF
