PRINT 0 * -.5#
