X! = 0.0# * -70000
PRINT X!
