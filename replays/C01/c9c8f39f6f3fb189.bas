LET T% = T% + 1
IF T% MOD 2 = 1 THEN PRINT "1t"; T% ELSE PRINT "1e"; T%
PRINT "end"; T%
