DATA xy
READ V0$
PRINT "["; V0$; "]"
