C1% = 0
DO
  C1% = C1% + 1
  T% = T% + 1
  PRINT "1w"; T%
LOOP WHILE C1% < 2
IF T% MOD 4 = 0 THEN
  T% = T% + 1
  PRINT "2t"; T%
ELSEIF T% MOD 4 = 1 THEN
  T% = T% + 1
  PRINT "2m"; T%
ELSEIF T% MOD 4 = 2 THEN
  T% = T% + 1
  PRINT "2n"; T%
ELSE
  T% = T% + 1
  PRINT "2e"; T%
END IF
C3% = 0
DO WHILE C3% < 2
  C3% = C3% + 1
  T% = T% + 1
  PRINT "3w"; T%
LOOP
PRINT "end"; T%
