DECLARE SUB Work ()
CALL Work
PRINT "back"
SUB Work
  IF T% MOD 2 = 0 THEN
    LET T% = T% + 1
    PRINT "1t"; T%
  ELSE
    LET T% = T% + 1
    PRINT "1e"; T%
  END IF
  PRINT "end"; T%
END SUB
