DATA 70000, xy
READ V0%, V1$
PRINT "["; V0%; "]"
PRINT "["; V1$; "]"
