V! = .5
DO UNTIL V!
  N% = N% + 1
  PRINT "body"; N%
  V! = 2
LOOP
PRINT "end"; N%
