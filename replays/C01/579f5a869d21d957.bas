DECLARE SUB Work ()
CALL Work
PRINT "back"
SUB Work
  SELECT CASE T% MOD 3
  CASE 0
    LET T% = T% + 1
    PRINT "1a"; T%
  CASE 1
    LET T% = T% + 1
    PRINT "1b"; T%
  CASE ELSE
    LET T% = T% + 1
    PRINT "1e"; T%
  END SELECT
  LET T% = T% + 1
  IF T% MOD 2 = 1 THEN PRINT "2t"; T% ELSE PRINT "2e"; T%
  PRINT "end"; T%
END SUB
