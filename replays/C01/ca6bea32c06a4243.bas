DECLARE SUB Work ()
CALL Work
PRINT "back"
SUB Work
  LET C1% = 0
  WHILE C1% < 2
    LET C1% = C1% + 1
    LET T% = T% + 1
    PRINT "1w"; T%
    SELECT CASE T% MOD 7
    CASE 0 TO 1
      LET T% = T% + 1
      PRINT "2a"; T%
    CASE IS > 5
      LET T% = T% + 1
      PRINT "2b"; T%
    CASE 2, 3 TO 3, 4
      LET T% = T% + 1
      PRINT "2c"; T%
    CASE ELSE
      LET T% = T% + 1
      PRINT "2e"; T%
    END SELECT
  WEND
  PRINT "end"; T%
END SUB
