C1% = 0
DO
  C1% = C1% + 1
  T% = T% + 1
  PRINT "1w"; T%
LOOP UNTIL C1% >= 2
IF T% MOD 4 = 0 THEN
  T% = T% + 1
  PRINT "2t"; T%
ELSEIF T% MOD 4 = 1 THEN
  T% = T% + 1
  PRINT "2m"; T%
ELSEIF T% MOD 4 = 2 THEN
  T% = T% + 1
  PRINT "2n"; T%
ELSE
  T% = T% + 1
  PRINT "2e"; T%
END IF
S3% = -2
FOR C3% = 4 TO 1 STEP S3%
  T% = T% + 1
  PRINT "3f"; T%
NEXT
PRINT "3x"; C3%
PRINT "end"; T%
