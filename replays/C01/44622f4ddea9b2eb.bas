DECLARE SUB Work ()
CALL Work
PRINT "back"
SUB Work
  IF T% MOD 2 = 0 THEN
    LET T% = T% + 1
    PRINT "1t"; T%
  END IF
  FOR C2% = 1 TO 4 STEP 2
    LET T% = T% + 1
    PRINT "2f"; T%
  NEXT C2%
  PRINT "2x"; C2%
  PRINT "end"; T%
END SUB
