DECLARE SUB Work ()
CALL Work
PRINT "back"
SUB Work
  FOR C1% = 2 TO 1 STEP -1
    LET T% = T% + 1
    PRINT "1f"; T%
  NEXT
  PRINT "1x"; C1%
  SELECT CASE T% MOD 3
  CASE 0
    LET T% = T% + 1
    PRINT "2a"; T%
  CASE 1
    LET T% = T% + 1
    PRINT "2b"; T%
  CASE ELSE
    LET T% = T% + 1
    PRINT "2e"; T%
  END SELECT
  PRINT "end"; T%
END SUB
