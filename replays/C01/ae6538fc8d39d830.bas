DATA xy
READ V0$, V1#
IF 0 THEN
  DATA 5
END IF
PRINT "["; V0$; "]"
PRINT "["; V1#; "]"
