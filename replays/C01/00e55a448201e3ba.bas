SELECT CASE T% MOD 3: CASE 0: T% = T% + 1: PRINT "1a"; T%: CASE 1: T% = T% + 1: PRINT "1b"; T%: CASE ELSE: T% = T% + 1: PRINT "1e"; T%: END SELECT
IF T% MOD 2 = 0 THEN
  T% = T% + 1
  PRINT "2t"; T%
END IF
PRINT "end"; T%
