C1% = 0
DO
  C1% = C1% + 1
  T% = T% + 1
  PRINT "1w"; T%
  C2% = 0
  WHILE C2% < 2
    C2% = C2% + 1
    T% = T% + 1
    PRINT "2w"; T%
    IF T% MOD 4 = 0 THEN
      T% = T% + 1
      PRINT "3t"; T%
    ELSEIF T% MOD 4 = 1 THEN
      T% = T% + 1
      PRINT "3m"; T%
    ELSEIF T% MOD 4 = 2 THEN
      T% = T% + 1
      PRINT "3n"; T%
    ELSE
      T% = T% + 1
      PRINT "3e"; T%
    END IF
  WEND
LOOP WHILE C1% < 2
PRINT "end"; T%
