READ V0$
DATA xy
PRINT "["; V0$; "]"
