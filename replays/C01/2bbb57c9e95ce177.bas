DECLARE SUB Work ()
CALL Work
PRINT "back"
SUB Work
  LET C1% = 0
  DO
    LET C1% = C1% + 1
    LET T% = T% + 1
    PRINT "1w"; T%
    IF T% MOD 2 = 0 THEN
      LET T% = T% + 1
      PRINT "2t"; T%
    END IF
  LOOP UNTIL C1% >= 2
  PRINT "end"; T%
END SUB
