READ V0%
READ V1$
DATA 70000, xy
PRINT "["; V0%; "]"
PRINT "["; V1$; "]"
