SELECT CASE T% MOD 3: CASE 0: T% = T% + 1: PRINT "1a"; T%: CASE 1: T% = T% + 1: PRINT "1b"; T%: CASE ELSE: T% = T% + 1: PRINT "1e"; T%: END SELECT
C2% = 0
DO UNTIL C2% >= 2: C2% = C2% + 1: T% = T% + 1: PRINT "2w"; T%: LOOP
PRINT "end"; T%
