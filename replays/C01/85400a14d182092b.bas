DECLARE SUB Work ()
CALL Work
PRINT "back"
SUB Work
  SELECT CASE T% MOD 3
  CASE 0
    LET T% = T% + 1
    PRINT "1a"; T%
  CASE 1
    LET T% = T% + 1
    PRINT "1b"; T%
  CASE ELSE
    LET T% = T% + 1
    PRINT "1e"; T%
  END SELECT
  LET C2% = 0
  DO WHILE C2% < 2
    LET C2% = C2% + 1
    LET T% = T% + 1
    PRINT "2w"; T%
  LOOP
  PRINT "end"; T%
END SUB
