DATA 5
READ V0#, V1$
IF 0 THEN
  DATA xy
END IF
PRINT "["; V0#; "]"
PRINT "["; V1$; "]"
