LET S1% = -2
FOR C1% = 4 TO 1 STEP S1%
  LET T% = T% + 1
  PRINT "1f"; T%
NEXT
PRINT "1x"; C1%
IF T% MOD 4 = 0 THEN
  LET T% = T% + 1
  PRINT "2t"; T%
ELSEIF T% MOD 4 = 1 THEN
  LET T% = T% + 1
  PRINT "2m"; T%
ELSEIF T% MOD 4 = 2 THEN
  LET T% = T% + 1
  PRINT "2n"; T%
ELSE
  LET T% = T% + 1
  PRINT "2e"; T%
END IF
PRINT "end"; T%
