LET C1% = 0
DO WHILE C1% < 2
  LET C1% = C1% + 1
  LET T% = T% + 1
  PRINT "1w"; T%
  IF T% MOD 2 = 0 THEN
    LET T% = T% + 1
    PRINT "2t"; T%
  ELSE
    LET T% = T% + 1
    PRINT "2e"; T%
  END IF
LOOP
PRINT "end"; T%
