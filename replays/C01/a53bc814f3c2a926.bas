IF T% MOD 2 = 0 THEN
  LET T% = T% + 1
  PRINT "1t"; T%
END IF
SELECT CASE T% MOD 3
CASE 0
  LET T% = T% + 1
  PRINT "2a"; T%
CASE 1
  LET T% = T% + 1
  PRINT "2b"; T%
CASE ELSE
  LET T% = T% + 1
  PRINT "2e"; T%
END SELECT
PRINT "end"; T%
