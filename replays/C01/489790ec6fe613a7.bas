SELECT CASE T% MOD 3
CASE 0
  LET T% = T% + 1
  PRINT "1a"; T%
CASE 1
  LET T% = T% + 1
  PRINT "1b"; T%
CASE ELSE
  LET T% = T% + 1
  PRINT "1e"; T%
END SELECT
SELECT CASE T% MOD 3
CASE 0
  LET T% = T% + 1
  PRINT "2a"; T%
CASE 1
  LET T% = T% + 1
  PRINT "2b"; T%
CASE ELSE
  LET T% = T% + 1
  PRINT "2e"; T%
END SELECT
PRINT "end"; T%
