X# = 0 - 0.0
PRINT X#
