LET C1% = 0
DO WHILE C1% < 2
  LET C1% = C1% + 1
  LET T% = T% + 1
  PRINT "1w"; T%
  SELECT CASE T% MOD 3
  CASE 0
    LET T% = T% + 1
    PRINT "2a"; T%
  CASE 1
    LET T% = T% + 1
    PRINT "2b"; T%
  CASE ELSE
    LET T% = T% + 1
    PRINT "2e"; T%
  END SELECT
LOOP
PRINT "end"; T%
