READ V0#
READ V1$
DATA 5, 5
PRINT "["; V0#; "]"
PRINT "["; V1$; "]"
