FOR C1% = 1 TO 2
  LET T% = T% + 1
  PRINT "1f"; T%
NEXT
PRINT "1x"; C1%
PRINT "end"; T%
