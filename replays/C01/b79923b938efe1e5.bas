DECLARE SUB Work ()
CALL Work
PRINT "back"
SUB Work
  LET C1% = 0
  DO WHILE C1% < 2
    LET C1% = C1% + 1
    LET T% = T% + 1
    PRINT "1w"; T%
    IF T% MOD 4 = 0 THEN
      LET T% = T% + 1
      PRINT "2t"; T%
    ELSEIF T% MOD 4 = 1 THEN
      LET T% = T% + 1
      PRINT "2m"; T%
    ELSEIF T% MOD 4 = 2 THEN
      LET T% = T% + 1
      PRINT "2n"; T%
    ELSE
      LET T% = T% + 1
      PRINT "2e"; T%
    END IF
  LOOP
  PRINT "end"; T%
END SUB
