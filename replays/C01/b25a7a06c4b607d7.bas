L& = 0
R% = 1
PRINT L& MOD R%
