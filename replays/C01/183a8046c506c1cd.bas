READ V0$
READ V1$
DATA "a b", xy
PRINT "["; V0$; "]"
PRINT "["; V1$; "]"
