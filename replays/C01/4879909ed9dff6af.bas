IF T% MOD 4 = 0 THEN
  T% = T% + 1
  PRINT "1t"; T%
ELSEIF T% MOD 4 = 1 THEN
  T% = T% + 1
  PRINT "1m"; T%
ELSEIF T% MOD 4 = 2 THEN
  T% = T% + 1
  PRINT "1n"; T%
ELSE
  T% = T% + 1
  PRINT "1e"; T%
END IF
SELECT CASE T% MOD 3: CASE 0: T% = T% + 1: PRINT "2a"; T%: CASE 1: T% = T% + 1: PRINT "2b"; T%: CASE ELSE: T% = T% + 1: PRINT "2e"; T%: END SELECT
PRINT "end"; T%
