PRINT -(0.0#)
