READ V0$, V1%
DATA xy, 5
PRINT "["; V0$; "]"
PRINT "["; V1%; "]"
