L& = -70000
R# = 8.0#
X& = L& AND R#
PRINT X&
