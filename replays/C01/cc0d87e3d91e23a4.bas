V! = 100000
DO
  N% = N% + 1
  PRINT "body"; N%
  V! = 2
LOOP UNTIL V!
PRINT "end"; N%
