X# = 0 * -.5#
PRINT X#
