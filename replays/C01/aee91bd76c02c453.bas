LET C1% = 0
DO UNTIL C1% >= 2
  LET C1% = C1% + 1
  LET T% = T% + 1
  PRINT "1w"; T%
LOOP
LET S2% = 2
FOR C2% = 1 TO 4 STEP S2%
  LET T% = T% + 1
  PRINT "2f"; T%
NEXT C2%
PRINT "2x"; C2%
PRINT "end"; T%
