PRINT 0.0# * -.25
