S1% = -2
FOR C1% = 4 TO 1 STEP S1%
  T% = T% + 1
  PRINT "1f"; T%
NEXT
PRINT "1x"; C1%
IF T% MOD 4 = 0 THEN
  T% = T% + 1
  PRINT "2t"; T%
  C3% = 0
  DO UNTIL C3% >= 2
    C3% = C3% + 1
    T% = T% + 1
    PRINT "3w"; T%
  LOOP
ELSEIF T% MOD 4 = 1 THEN
  T% = T% + 1
  PRINT "2m"; T%
ELSEIF T% MOD 4 = 2 THEN
  T% = T% + 1
  PRINT "2n"; T%
ELSE
  T% = T% + 1
  PRINT "2e"; T%
END IF
PRINT "end"; T%
