LET C1% = 0
DO UNTIL C1% >= 2
  LET C1% = C1% + 1
  LET T% = T% + 1
  PRINT "1w"; T%
LOOP
LET T% = T% + 1
IF T% MOD 2 = 1 THEN PRINT "2t"; T% ELSE PRINT "2e"; T%
PRINT "end"; T%
