DECLARE SUB Work ()
CALL Work
PRINT "back"
SUB Work
  IF T% MOD 4 = 0 THEN
    LET T% = T% + 1
    PRINT "1t"; T%
    IF T% MOD 2 = 0 THEN
      LET T% = T% + 1
      PRINT "2t"; T%
    END IF
  ELSEIF T% MOD 4 = 1 THEN
    LET T% = T% + 1
    PRINT "1m"; T%
  ELSEIF T% MOD 4 = 2 THEN
    LET T% = T% + 1
    PRINT "1n"; T%
  ELSE
    LET T% = T% + 1
    PRINT "1e"; T%
  END IF
  PRINT "end"; T%
END SUB
