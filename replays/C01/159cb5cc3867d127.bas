T% = T% + 1
IF T% MOD 2 = 1 THEN PRINT "1t"; T% ELSE PRINT "1e"; T%
SELECT CASE T% MOD 3: CASE 0: T% = T% + 1: PRINT "2a"; T%: CASE 1: T% = T% + 1: PRINT "2b"; T%: CASE ELSE: T% = T% + 1: PRINT "2e"; T%: END SELECT
PRINT "end"; T%
