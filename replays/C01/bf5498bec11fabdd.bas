LET C1% = 0
DO
  LET C1% = C1% + 1
  LET T% = T% + 1
  PRINT "1w"; T%
  SELECT CASE T% MOD 7
  CASE 0 TO 1
    LET T% = T% + 1
    PRINT "2a"; T%
  CASE IS > 5
    LET T% = T% + 1
    PRINT "2b"; T%
  CASE 2, 3 TO 3, 4
    LET T% = T% + 1
    PRINT "2c"; T%
  CASE ELSE
    LET T% = T% + 1
    PRINT "2e"; T%
  END SELECT
LOOP UNTIL C1% >= 2
PRINT "end"; T%
