READ V0%, V1$
DATA 70000, xy
PRINT "["; V0%; "]"
PRINT "["; V1$; "]"
