SELECT CASE T% MOD 7
CASE 0 TO 1
  LET T% = T% + 1
  PRINT "1a"; T%
CASE IS > 5
  LET T% = T% + 1
  PRINT "1b"; T%
CASE 2, 3 TO 3, 4
  LET T% = T% + 1
  PRINT "1c"; T%
CASE ELSE
  LET T% = T% + 1
  PRINT "1e"; T%
END SELECT
IF T% MOD 2 = 0 THEN
  LET T% = T% + 1
  PRINT "2t"; T%
ELSE
  LET T% = T% + 1
  PRINT "2e"; T%
END IF
PRINT "end"; T%
