SELECT CASE T% MOD 7: CASE 0 TO 1: T% = T% + 1: PRINT "1a"; T%: SELECT CASE T% MOD 3: CASE 0: T% = T% + 1: PRINT "2a"; T%: CASE 1: T% = T% + 1: PRINT "2b"; T%: CASE ELSE: T% = T% + 1: PRINT "2e"; T%: END SELECT: CASE IS > 5: T% = T% + 1: PRINT "1b"; T%: CASE 2, 3 TO 3, 4: T% = T% + 1: PRINT "1c"; T%: CASE ELSE: T% = T% + 1: PRINT "1e"; T%: END SELECT
PRINT "end"; T%
