L& = -70000
R! = -.25
X# = (L& OR R!)
PRINT X#
