DECLARE SUB Work ()
CALL Work
PRINT "back"
SUB Work
  IF T% MOD 4 = 0 THEN
    LET T% = T% + 1
    PRINT "1t"; T%
    SELECT CASE T% MOD 7
    CASE 0 TO 1
      LET T% = T% + 1
      PRINT "2a"; T%
    CASE IS > 5
      LET T% = T% + 1
      PRINT "2b"; T%
    CASE 2, 3 TO 3, 4
      LET T% = T% + 1
      PRINT "2c"; T%
    CASE ELSE
      LET T% = T% + 1
      PRINT "2e"; T%
    END SELECT
  ELSEIF T% MOD 4 = 1 THEN
    LET T% = T% + 1
    PRINT "1m"; T%
  ELSEIF T% MOD 4 = 2 THEN
    LET T% = T% + 1
    PRINT "1n"; T%
  ELSE
    LET T% = T% + 1
    PRINT "1e"; T%
  END IF
  PRINT "end"; T%
END SUB
