DECLARE SUB Work ()
CALL Work
PRINT "back"
SUB Work
  FOR C1% = 1 TO 2
    LET T% = T% + 1
    PRINT "1f"; T%
    LET C2% = 0
    DO
      LET C2% = C2% + 1
      LET T% = T% + 1
      PRINT "2w"; T%
    LOOP WHILE C2% < 2
  NEXT
  PRINT "1x"; C1%
  PRINT "end"; T%
END SUB
