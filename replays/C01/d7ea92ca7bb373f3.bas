READ V0$
READ V1%
DATA xy, 5
PRINT "["; V0$; "]"
PRINT "["; V1%; "]"
