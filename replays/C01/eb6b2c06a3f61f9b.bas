FOR C1% = 1 TO 4 STEP 2
  LET T% = T% + 1
  PRINT "1f"; T%
  IF T% MOD 2 = 0 THEN
    LET T% = T% + 1
    PRINT "2t"; T%
  ELSE
    LET T% = T% + 1
    PRINT "2e"; T%
  END IF
NEXT
PRINT "1x"; C1%
PRINT "end"; T%
