X# = 0 * -.25
PRINT X#
