FOR C1% = 2 TO 1 STEP -1
  T% = T% + 1
  PRINT "1f"; T%
  S2% = 2
  FOR C2% = 1 TO 4 STEP S2%
    T% = T% + 1
    PRINT "2f"; T%
    IF T% MOD 4 = 0 THEN
      T% = T% + 1
      PRINT "3t"; T%
    ELSEIF T% MOD 4 = 1 THEN
      T% = T% + 1
      PRINT "3m"; T%
    ELSEIF T% MOD 4 = 2 THEN
      T% = T% + 1
      PRINT "3n"; T%
    ELSE
      T% = T% + 1
      PRINT "3e"; T%
    END IF
  NEXT C2%
  PRINT "2x"; C2%
NEXT
PRINT "1x"; C1%
PRINT "end"; T%
