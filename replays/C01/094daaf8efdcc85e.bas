DECLARE SUB Work ()
CALL Work
PRINT "back"
SUB Work
  LET C1% = 0
  WHILE C1% < 2
    LET C1% = C1% + 1
    LET T% = T% + 1
    PRINT "1w"; T%
  WEND
  PRINT "end"; T%
END SUB
