DATA xy
READ V0$
READ Z%
PRINT "["; V0$; "]"
