DATA "a b", xy
READ V0$
READ V1$
PRINT "["; V0$; "]"
PRINT "["; V1$; "]"
