DECLARE SUB Work ()
CALL Work
PRINT "back"
SUB Work
  FOR C1% = 2 TO 1 STEP -1
    LET T% = T% + 1
    PRINT "1f"; T%
  NEXT
  PRINT "1x"; C1%
  LET T% = T% + 1
  IF T% MOD 2 = 1 THEN PRINT "2t"; T% ELSE PRINT "2e"; T%
  PRINT "end"; T%
END SUB
