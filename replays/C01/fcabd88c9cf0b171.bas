DECLARE SUB Work ()
CALL Work
PRINT "back"
SUB Work
  LET C1% = 0
  DO UNTIL C1% >= 2
    LET C1% = C1% + 1
    LET T% = T% + 1
    PRINT "1w"; T%
  LOOP
  LET C2% = 0
  DO
    LET C2% = C2% + 1
    LET T% = T% + 1
    PRINT "2w"; T%
  LOOP UNTIL C2% >= 2
  PRINT "end"; T%
END SUB
