C1% = 2
ZL6% = 1
ZS6% = -1
WHILE (ZS6% > 0 AND C1% <= ZL6%) OR (ZS6% < 0 AND C1% >= ZL6%)
  T% = T% + 1
  PRINT "1f"; T%
  IF T% MOD 2 = 0 THEN
    T% = T% + 1
    PRINT "2t"; T%
  END IF
  C1% = C1% + ZS6%
WEND
PRINT "1x"; C1%
PRINT "end"; T%
