C1% = 2
ZL7% = 1
ZS7% = -1
WHILE (ZS7% > 0 AND C1% <= ZL7%) OR (ZS7% < 0 AND C1% >= ZL7%)
  T% = T% + 1
  PRINT "1f"; T%
  C2% = 1
  ZL5% = 4
  ZS5% = 2
  WHILE (ZS5% > 0 AND C2% <= ZL5%) OR (ZS5% < 0 AND C2% >= ZL5%)
    T% = T% + 1
    PRINT "2f"; T%
    C2% = C2% + ZS5%
  WEND
  PRINT "2x"; C2%
  C1% = C1% + ZS7%
WEND
PRINT "1x"; C1%
PRINT "end"; T%
