SELECT CASE T% MOD 7
CASE 0 TO 1
  T% = T% + 1
  PRINT "1a"; T%
CASE IS > 5
  T% = T% + 1
  PRINT "1b"; T%
CASE 2, 3 TO 3, 4
  T% = T% + 1
  PRINT "1c"; T%
CASE ELSE
  T% = T% + 1
  PRINT "1e"; T%
END SELECT
C2% = 2
ZL12% = 1
ZS12% = -1
WHILE (ZS12% > 0 AND C2% <= ZL12%) OR (ZS12% < 0 AND C2% >= ZL12%)
  T% = T% + 1
  PRINT "2f"; T%
  C2% = C2% + ZS12%
WEND
PRINT "2x"; C2%
PRINT "end"; T%
