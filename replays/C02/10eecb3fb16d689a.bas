FOR C1% = 1 TO 2 STEP 1
  T% = T% + 1
  PRINT "1f"; T%
NEXT
PRINT "1x"; C1%
C2% = 0
WHILE C2% < 2
  C2% = C2% + 1
  T% = T% + 1
  PRINT "2w"; T%
WEND
PRINT "end"; T%
