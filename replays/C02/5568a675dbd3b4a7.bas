S1% = -2
C1% = 4
ZL9% = 1
ZS9% = S1%
WHILE (ZS9% > 0 AND C1% <= ZL9%) OR (ZS9% < 0 AND C1% >= ZL9%)
  T% = T% + 1
  PRINT "1f"; T%
  C2% = 0
  DO WHILE C2% < 2
    C2% = C2% + 1
    T% = T% + 1
    PRINT "2w"; T%
  LOOP
  C1% = C1% + ZS9%
WEND
PRINT "1x"; C1%
PRINT "end"; T%
