T% = T% + 1
IF T% MOD 2 = 1 THEN PRINT "1t"; T% ELSE PRINT "1e"; T%
FOR C2% = 2 TO 1 STEP -1
  IF -1 THEN
    T% = T% + 1
    PRINT "2f"; T%
  END IF
NEXT C2%
PRINT "2x"; C2%
PRINT "end"; T%
