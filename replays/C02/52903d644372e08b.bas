FOR C1% = 2 TO 1 STEP -1
  IF -1 THEN
    T% = T% + 1
    PRINT "1f"; T%
  END IF
NEXT
PRINT "1x"; C1%
IF T% MOD 2 = 0 THEN
  T% = T% + 1
  PRINT "2t"; T%
END IF
PRINT "end"; T%
