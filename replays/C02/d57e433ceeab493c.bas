IF T% MOD 2 = 0 THEN
  T% = T% + 1
  PRINT "1t"; T%
END IF
C2% = 2
ZL6% = 1
ZS6% = -1
WHILE (ZS6% > 0 AND C2% <= ZL6%) OR (ZS6% < 0 AND C2% >= ZL6%)
  T% = T% + 1
  PRINT "2f"; T%
  C2% = C2% + ZS6%
WEND
PRINT "2x"; C2%
PRINT "end"; T%
