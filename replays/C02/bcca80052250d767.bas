FOR C1% = 2 TO 1 STEP -1
  T% = T% + 1
  PRINT "1f"; T%
  ZC9% = T% MOD 3
  IF ZC9% = 0 THEN
    T% = T% + 1
    PRINT "2a"; T%
  ELSEIF ZC9% = 1 THEN
    T% = T% + 1
    PRINT "2b"; T%
  ELSE
    T% = T% + 1
    PRINT "2e"; T%
  END IF
NEXT
PRINT "1x"; C1%
PRINT "end"; T%
