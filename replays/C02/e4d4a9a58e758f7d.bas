T% = T% + 1
IF T% MOD 2 = 1 THEN PRINT "1t"; T% ELSE PRINT "1e"; T%
C2% = 2
ZL7% = 1
ZS7% = -1
WHILE (ZS7% > 0 AND C2% <= ZL7%) OR (ZS7% < 0 AND C2% >= ZL7%)
  T% = T% + 1
  PRINT "2f"; T%
  C2% = C2% + ZS7%
WEND
PRINT "2x"; C2%
PRINT "end"; T%
