T% = T% + 1
IF T% MOD 2 = 1 THEN PRINT "1t"; T% ELSE PRINT "1e"; T%
FOR C2% = 1 TO 2 STEP 1
  T% = T% + 1
  PRINT "2f"; T%
NEXT C2%
PRINT "2x"; C2%
PRINT "end"; T%
