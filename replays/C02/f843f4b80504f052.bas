IF T% MOD 2 = 0 THEN
  T% = T% + 1
  PRINT "1t"; T%
  S2% = 2
  C2% = 1
  ZL6% = 4
  ZS6% = S2%
  WHILE (ZS6% > 0 AND C2% <= ZL6%) OR (ZS6% < 0 AND C2% >= ZL6%)
    T% = T% + 1
    PRINT "2f"; T%
    C2% = C2% + ZS6%
  WEND
  PRINT "2x"; C2%
ELSE
  T% = T% + 1
  PRINT "1e"; T%
END IF
PRINT "end"; T%
