C1% = 1
ZL3% = 4
ZS3% = 2
WHILE (ZS3% > 0 AND C1% <= ZL3%) OR (ZS3% < 0 AND C1% >= ZL3%)
  T% = T% + 1
  PRINT "1f"; T%
  C1% = C1% + ZS3%
WEND
PRINT "1x"; C1%
C2% = 0
WHILE C2% < 2
  C2% = C2% + 1
  T% = T% + 1
  PRINT "2w"; T%
WEND
PRINT "end"; T%
