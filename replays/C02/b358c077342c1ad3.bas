C1% = 0
DO
  C1% = C1% + 1
  T% = T% + 1
  PRINT "1w"; T%
  C2% = 2
  ZL6% = 1
  ZS6% = -1
  WHILE (ZS6% > 0 AND C2% <= ZL6%) OR (ZS6% < 0 AND C2% >= ZL6%)
    T% = T% + 1
    PRINT "2f"; T%
    C2% = C2% + ZS6%
  WEND
  PRINT "2x"; C2%
LOOP WHILE C1% < 2
PRINT "end"; T%
