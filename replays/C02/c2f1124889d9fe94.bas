C1% = 0
DO
  C1% = C1% + 1
  T% = T% + 1
  PRINT "1w"; T%
  ZC12% = T% MOD 7
  IF (ZC12% >= 0 AND ZC12% <= 1) THEN
    T% = T% + 1
    PRINT "2a"; T%
  ELSEIF ZC12% > 5 THEN
    T% = T% + 1
    PRINT "2b"; T%
  ELSEIF ZC12% = 2 OR (ZC12% >= 3 AND ZC12% <= 3) OR ZC12% = 4 THEN
    T% = T% + 1
    PRINT "2c"; T%
  ELSE
    T% = T% + 1
    PRINT "2e"; T%
  END IF
LOOP UNTIL C1% >= 2
PRINT "end"; T%
