FOR C1% = 2 TO 1 STEP -1
  T% = T% + 1
  PRINT "1f"; T%
  C2% = 1
  ZL5% = 2
  ZS5% = 1
  WHILE (ZS5% > 0 AND C2% <= ZL5%) OR (ZS5% < 0 AND C2% >= ZL5%)
    T% = T% + 1
    PRINT "2f"; T%
    C2% = C2% + ZS5%
  WEND
  PRINT "2x"; C2%
NEXT
PRINT "1x"; C1%
PRINT "end"; T%
