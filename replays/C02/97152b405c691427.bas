C1% = 2
ZL3% = 1
ZS3% = -1
WHILE (ZS3% > 0 AND C1% <= ZL3%) OR (ZS3% < 0 AND C1% >= ZL3%)
  T% = T% + 1
  PRINT "1f"; T%
  C1% = C1% + ZS3%
WEND
PRINT "1x"; C1%
C2% = 0
DO WHILE C2% < 2
  C2% = C2% + 1
  T% = T% + 1
  PRINT "2w"; T%
LOOP
PRINT "end"; T%
