FOR C1% = 1 TO 2 STEP 1
  T% = T% + 1
  PRINT "1f"; T%
NEXT
PRINT "1x"; C1%
S2% = 2
FOR C2% = 1 TO 4 STEP S2%
  T% = T% + 1
  PRINT "2f"; T%
NEXT C2%
PRINT "2x"; C2%
PRINT "end"; T%
