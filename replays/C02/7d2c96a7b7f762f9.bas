T% = T% + 1
IF T% MOD 2 = 1 THEN PRINT "1t"; T% ELSE PRINT "1e"; T%
S2% = 2
C2% = 1
ZL8% = 4
ZS8% = S2%
WHILE (ZS8% > 0 AND C2% <= ZL8%) OR (ZS8% < 0 AND C2% >= ZL8%)
  T% = T% + 1
  PRINT "2f"; T%
  C2% = C2% + ZS8%
WEND
PRINT "2x"; C2%
PRINT "end"; T%
