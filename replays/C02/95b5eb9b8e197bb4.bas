S1% = -2
C1% = 4
ZL4% = 1
ZS4% = S1%
WHILE (ZS4% > 0 AND C1% <= ZL4%) OR (ZS4% < 0 AND C1% >= ZL4%)
  T% = T% + 1
  PRINT "1f"; T%
  C1% = C1% + ZS4%
WEND
PRINT "1x"; C1%
C2% = 1
ZL8% = 2
ZS8% = 1
WHILE (ZS8% > 0 AND C2% <= ZL8%) OR (ZS8% < 0 AND C2% >= ZL8%)
  T% = T% + 1
  PRINT "2f"; T%
  C2% = C2% + ZS8%
WEND
PRINT "2x"; C2%
PRINT "end"; T%
