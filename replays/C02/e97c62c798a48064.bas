FOR C1% = 2 TO 1 STEP -1
  T% = T% + 1
  PRINT "1f"; T%
  ZC11% = T% MOD 7
  IF (ZC11% >= 0 AND ZC11% <= 1) THEN
    T% = T% + 1
    PRINT "2a"; T%
  ELSEIF ZC11% > 5 THEN
    T% = T% + 1
    PRINT "2b"; T%
  ELSEIF ZC11% = 2 OR (ZC11% >= 3 AND ZC11% <= 3) OR ZC11% = 4 THEN
    T% = T% + 1
    PRINT "2c"; T%
  ELSE
    T% = T% + 1
    PRINT "2e"; T%
  END IF
NEXT
PRINT "1x"; C1%
PRINT "end"; T%
