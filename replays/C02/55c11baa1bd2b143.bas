C1% = 2
ZL7% = 1
ZS7% = -1
WHILE (ZS7% > 0 AND C1% <= ZL7%) OR (ZS7% < 0 AND C1% >= ZL7%)
  T% = T% + 1
  PRINT "1f"; T%
  T% = T% + 1
  IF T% MOD 2 = 1 THEN PRINT "2t"; T% ELSE PRINT "2e"; T%
  C1% = C1% + ZS7%
WEND
PRINT "1x"; C1%
PRINT "end"; T%
