S1% = -2
C1% = 4
ZL8% = 1
ZS8% = S1%
WHILE (ZS8% > 0 AND C1% <= ZL8%) OR (ZS8% < 0 AND C1% >= ZL8%)
  T% = T% + 1
  PRINT "1f"; T%
  C2% = 2
  ZL5% = 1
  ZS5% = -1
  WHILE (ZS5% > 0 AND C2% <= ZL5%) OR (ZS5% < 0 AND C2% >= ZL5%)
    T% = T% + 1
    PRINT "2f"; T%
    C2% = C2% + ZS5%
  WEND
  PRINT "2x"; C2%
  C1% = C1% + ZS8%
WEND
PRINT "1x"; C1%
PRINT "end"; T%
