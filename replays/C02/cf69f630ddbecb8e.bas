IF T% MOD 2 = 0 THEN
  T% = T% + 1
  PRINT "1t"; T%
ELSE
  T% = T% + 1
  PRINT "1e"; T%
END IF
C2% = 2
ZL8% = 1
ZS8% = -1
WHILE (ZS8% > 0 AND C2% <= ZL8%) OR (ZS8% < 0 AND C2% >= ZL8%)
  T% = T% + 1
  PRINT "2f"; T%
  C2% = C2% + ZS8%
WEND
PRINT "2x"; C2%
PRINT "end"; T%
