C1% = 0
DO WHILE C1% < 2
  C1% = C1% + 1
  T% = T% + 1
  PRINT "1w"; T%
LOOP
C2% = 1
ZL8% = 4
ZS8% = 2
WHILE (ZS8% > 0 AND C2% <= ZL8%) OR (ZS8% < 0 AND C2% >= ZL8%)
  T% = T% + 1
  PRINT "2f"; T%
  C2% = C2% + ZS8%
WEND
PRINT "2x"; C2%
PRINT "end"; T%
