IF T% MOD 4 = 0 THEN
  T% = T% + 1
  PRINT "1t"; T%
ELSEIF T% MOD 4 = 1 THEN
  T% = T% + 1
  PRINT "1m"; T%
ELSEIF T% MOD 4 = 2 THEN
  T% = T% + 1
  PRINT "1n"; T%
ELSE
  T% = T% + 1
  PRINT "1e"; T%
END IF
FOR C2% = 2 TO 1 STEP -1
  IF -1 THEN
    T% = T% + 1
    PRINT "2f"; T%
  END IF
NEXT C2%
PRINT "2x"; C2%
PRINT "end"; T%
