DECLARE SUB Fail ()
DIM SHARED A%(2)
DIM SHARED Z%, K%, IX%, M%, W%, X%, S$, HQ%, HZ%
Z% = 0
K% = 1
IX% = 5
M% = -1
SELECT CASE 2: CASE 1: PRINT "case 1": CASE 2: Fail: PRINT "a"; W%: PRINT "b"; W%; ERR: CASE 2 TO 3: PRINT "case 2 again": CASE ELSE: PRINT "case else": END SELECT
After:
PRINT "done"; ERR; W%; X%
END
H:
PRINT "h"; ERR
RESUME NEXT
SUB Fail
  PRINT "fail in"
  Q% = 1 / Z%
  PRINT "fail out"
END SUB
