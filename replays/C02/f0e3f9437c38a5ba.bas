FOR C1% = 1 TO 2 STEP 1
  T% = T% + 1
  PRINT "1f"; T%
NEXT
PRINT "1x"; C1%
IF T% MOD 2 = 0 THEN
  T% = T% + 1
  PRINT "2t"; T%
END IF
PRINT "end"; T%
