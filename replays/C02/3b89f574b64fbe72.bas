DECLARE SUB Fail ()
DIM SHARED A%(2)
DIM SHARED Z%, K%, IX%, M%, W%, X%, S$, HQ%, HZ%
Z% = 0
K% = 1
IX% = 5
M% = -1
ON ERROR GOTO H
DO: C% = C% + 1: PRINT "a"; W%: Fail: PRINT "b"; W%; ERR: LOOP UNTIL C% >= 2
After:
PRINT "done"; ERR; W%; X%
END
H:
PRINT "h"; ERR
Z% = 2
K% = 0
IX% = 1
M% = 1
RESUME
SUB Fail
  PRINT "fail in"
  Q% = 1 / Z%
  PRINT "fail out"
END SUB
