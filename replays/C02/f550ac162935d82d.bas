C1% = 1
ZL3% = 4
ZS3% = 2
WHILE (ZS3% > 0 AND C1% <= ZL3%) OR (ZS3% < 0 AND C1% >= ZL3%)
  T% = T% + 1
  PRINT "1f"; T%
  C1% = C1% + ZS3%
WEND
PRINT "1x"; C1%
T% = T% + 1
IF T% MOD 2 = 1 THEN PRINT "2t"; T% ELSE PRINT "2e"; T%
PRINT "end"; T%
