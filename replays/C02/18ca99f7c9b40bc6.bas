C1% = 0
DO WHILE C1% < 2
  IF -1 THEN
    C1% = C1% + 1
    T% = T% + 1
    PRINT "1w"; T%
    FOR C2% = 2 TO 1 STEP -1
      IF -1 THEN
        T% = T% + 1
        PRINT "2f"; T%
      END IF
    NEXT C2%
    PRINT "2x"; C2%
  END IF
LOOP
PRINT "end"; T%
