SELECT CASE T% MOD 3
CASE 0
  T% = T% + 1
  PRINT "1a"; T%
CASE 1
  T% = T% + 1
  PRINT "1b"; T%
CASE ELSE
  T% = T% + 1
  PRINT "1e"; T%
END SELECT
S2% = 2
C2% = 1
ZL11% = 4
ZS11% = S2%
WHILE (ZS11% > 0 AND C2% <= ZL11%) OR (ZS11% < 0 AND C2% >= ZL11%)
  T% = T% + 1
  PRINT "2f"; T%
  C2% = C2% + ZS11%
WEND
PRINT "2x"; C2%
PRINT "end"; T%
