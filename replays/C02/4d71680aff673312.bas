FOR C1% = 2 TO 1 STEP -1
  IF -1 THEN
    T% = T% + 1
    PRINT "1f"; T%
  END IF
NEXT
PRINT "1x"; C1%
C2% = 0
DO
  IF -1 THEN
    C2% = C2% + 1
    T% = T% + 1
    PRINT "2w"; T%
  END IF
LOOP WHILE C2% < 2
PRINT "end"; T%
