C1% = 2
ZL8% = 1
ZS8% = -1
WHILE (ZS8% > 0 AND C1% <= ZL8%) OR (ZS8% < 0 AND C1% >= ZL8%)
  T% = T% + 1
  PRINT "1f"; T%
  IF T% MOD 2 = 0 THEN
    T% = T% + 1
    PRINT "2t"; T%
  ELSE
    T% = T% + 1
    PRINT "2e"; T%
  END IF
  C1% = C1% + ZS8%
WEND
PRINT "1x"; C1%
PRINT "end"; T%
