SELECT CASE T% MOD 3
CASE 0
  T% = T% + 1
  PRINT "1a"; T%
CASE 1
  T% = T% + 1
  PRINT "1b"; T%
CASE ELSE
  T% = T% + 1
  PRINT "1e"; T%
END SELECT
C2% = 1
ZL10% = 4
ZS10% = 2
WHILE (ZS10% > 0 AND C2% <= ZL10%) OR (ZS10% < 0 AND C2% >= ZL10%)
  T% = T% + 1
  PRINT "2f"; T%
  C2% = C2% + ZS10%
WEND
PRINT "2x"; C2%
PRINT "end"; T%
