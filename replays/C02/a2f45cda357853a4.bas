DECLARE SUB Fail ()
DIM SHARED A%(2)
DIM SHARED Z%, K%, IX%, M%, W%, X%, S$, HQ%, HZ%
Z% = 0
K% = 1
IX% = 5
M% = -1
ON ERROR RESUME NEXT
WHILE C% < 2: C% = C% + 1: Fail: PRINT "a"; W%: PRINT "b"; W%; ERR: WEND
After:
PRINT "done"; ERR; W%; X%
END
H:
PRINT "h"; ERR
RESUME NEXT
SUB Fail
  PRINT "fail in"
  Q% = 1 / Z%
  PRINT "fail out"
END SUB
