S1% = -2
C1% = 4
ZL4% = 1
ZS4% = S1%
WHILE (ZS4% > 0 AND C1% <= ZL4%) OR (ZS4% < 0 AND C1% >= ZL4%)
  T% = T% + 1
  PRINT "1f"; T%
  C1% = C1% + ZS4%
WEND
PRINT "1x"; C1%
PRINT "end"; T%
