SELECT CASE T% MOD 3
CASE 0
  T% = T% + 1
  PRINT "1a"; T%
  C2% = 1
  ZL5% = 4
  ZS5% = 2
  WHILE (ZS5% > 0 AND C2% <= ZL5%) OR (ZS5% < 0 AND C2% >= ZL5%)
    T% = T% + 1
    PRINT "2f"; T%
    C2% = C2% + ZS5%
  WEND
  PRINT "2x"; C2%
CASE 1
  T% = T% + 1
  PRINT "1b"; T%
CASE ELSE
  T% = T% + 1
  PRINT "1e"; T%
END SELECT
PRINT "end"; T%
