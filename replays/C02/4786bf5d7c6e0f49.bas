S1% = -2
FOR C1% = 4 TO 1 STEP S1%
  IF -1 THEN
    T% = T% + 1
    PRINT "1f"; T%
    FOR C2% = 2 TO 1 STEP -1
      IF -1 THEN
        T% = T% + 1
        PRINT "2f"; T%
      END IF
    NEXT C2%
    PRINT "2x"; C2%
  END IF
NEXT
PRINT "1x"; C1%
PRINT "end"; T%
