FOR C1% = 1 TO 2 STEP 1
  T% = T% + 1
  PRINT "1f"; T%
NEXT
PRINT "1x"; C1%
C2% = 0
DO
  C2% = C2% + 1
  T% = T% + 1
  PRINT "2w"; T%
LOOP UNTIL C2% >= 2
PRINT "end"; T%
