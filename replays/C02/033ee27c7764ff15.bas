C1% = 2
ZL12% = 1
ZS12% = -1
WHILE (ZS12% > 0 AND C1% <= ZL12%) OR (ZS12% < 0 AND C1% >= ZL12%)
  T% = T% + 1
  PRINT "1f"; T%
  IF T% MOD 4 = 0 THEN
    T% = T% + 1
    PRINT "2t"; T%
  ELSEIF T% MOD 4 = 1 THEN
    T% = T% + 1
    PRINT "2m"; T%
  ELSEIF T% MOD 4 = 2 THEN
    T% = T% + 1
    PRINT "2n"; T%
  ELSE
    T% = T% + 1
    PRINT "2e"; T%
  END IF
  C1% = C1% + ZS12%
WEND
PRINT "1x"; C1%
PRINT "end"; T%
