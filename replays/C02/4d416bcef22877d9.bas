C1% = 1
ZL8% = 4
ZS8% = 2
WHILE (ZS8% > 0 AND C1% <= ZL8%) OR (ZS8% < 0 AND C1% >= ZL8%)
  T% = T% + 1
  PRINT "1f"; T%
  C2% = 0
  DO
    C2% = C2% + 1
    T% = T% + 1
    PRINT "2w"; T%
  LOOP WHILE C2% < 2
  C1% = C1% + ZS8%
WEND
PRINT "1x"; C1%
PRINT "end"; T%
