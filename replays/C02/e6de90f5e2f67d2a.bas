SELECT CASE T% MOD 7
CASE 0 TO 1
  T% = T% + 1
  PRINT "1a"; T%
CASE IS > 5
  T% = T% + 1
  PRINT "1b"; T%
CASE 2, 3 TO 3, 4
  T% = T% + 1
  PRINT "1c"; T%
CASE ELSE
  T% = T% + 1
  PRINT "1e"; T%
END SELECT
S2% = 2
C2% = 1
ZL13% = 4
ZS13% = S2%
WHILE (ZS13% > 0 AND C2% <= ZL13%) OR (ZS13% < 0 AND C2% >= ZL13%)
  T% = T% + 1
  PRINT "2f"; T%
  C2% = C2% + ZS13%
WEND
PRINT "2x"; C2%
PRINT "end"; T%
