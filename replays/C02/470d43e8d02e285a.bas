C1% = 1
ZL3% = 4
ZS3% = 2
WHILE (ZS3% > 0 AND C1% <= ZL3%) OR (ZS3% < 0 AND C1% >= ZL3%)
  T% = T% + 1
  PRINT "1f"; T%
  C1% = C1% + ZS3%
WEND
PRINT "1x"; C1%
C2% = 1
ZL7% = 4
ZS7% = 2
WHILE (ZS7% > 0 AND C2% <= ZL7%) OR (ZS7% < 0 AND C2% >= ZL7%)
  T% = T% + 1
  PRINT "2f"; T%
  C2% = C2% + ZS7%
WEND
PRINT "2x"; C2%
PRINT "end"; T%
