IF T% MOD 4 = 0 THEN
  T% = T% + 1
  PRINT "1t"; T%
  C2% = 2
  ZL5% = 1
  ZS5% = -1
  WHILE (ZS5% > 0 AND C2% <= ZL5%) OR (ZS5% < 0 AND C2% >= ZL5%)
    T% = T% + 1
    PRINT "2f"; T%
    C2% = C2% + ZS5%
  WEND
  PRINT "2x"; C2%
ELSEIF T% MOD 4 = 1 THEN
  T% = T% + 1
  PRINT "1m"; T%
ELSEIF T% MOD 4 = 2 THEN
  T% = T% + 1
  PRINT "1n"; T%
ELSE
  T% = T% + 1
  PRINT "1e"; T%
END IF
PRINT "end"; T%
