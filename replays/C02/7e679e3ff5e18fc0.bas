FOR C1% = 2 TO 1 STEP -1
  IF -1 THEN
    T% = T% + 1
    PRINT "1f"; T%
    IF T% MOD 4 = 0 THEN
      T% = T% + 1
      PRINT "2t"; T%
    ELSEIF T% MOD 4 = 1 THEN
      T% = T% + 1
      PRINT "2m"; T%
    ELSEIF T% MOD 4 = 2 THEN
      T% = T% + 1
      PRINT "2n"; T%
    ELSE
      T% = T% + 1
      PRINT "2e"; T%
    END IF
  END IF
NEXT
PRINT "1x"; C1%
PRINT "end"; T%
