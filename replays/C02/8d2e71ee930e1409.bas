IF T% MOD 4 = 0 THEN
  T% = T% + 1
  PRINT "1t"; T%
ELSEIF T% MOD 4 = 1 THEN
  T% = T% + 1
  PRINT "1m"; T%
ELSEIF T% MOD 4 = 2 THEN
  T% = T% + 1
  PRINT "1n"; T%
ELSE
  T% = T% + 1
  PRINT "1e"; T%
END IF
C2% = 1
ZL12% = 4
ZS12% = 2
WHILE (ZS12% > 0 AND C2% <= ZL12%) OR (ZS12% < 0 AND C2% >= ZL12%)
  T% = T% + 1
  PRINT "2f"; T%
  C2% = C2% + ZS12%
WEND
PRINT "2x"; C2%
PRINT "end"; T%
