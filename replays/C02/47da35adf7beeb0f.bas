FOR C1% = 1 TO 2 STEP 1
  T% = T% + 1
  PRINT "1f"; T%
NEXT
PRINT "1x"; C1%
T% = T% + 1
IF T% MOD 2 = 1 THEN PRINT "2t"; T% ELSE PRINT "2e"; T%
PRINT "end"; T%
