C1% = 0
DO
  C1% = C1% + 1
  T% = T% + 1
  PRINT "1w"; T%
LOOP WHILE C1% < 2
C2% = 2
ZL8% = 1
ZS8% = -1
WHILE (ZS8% > 0 AND C2% <= ZL8%) OR (ZS8% < 0 AND C2% >= ZL8%)
  T% = T% + 1
  PRINT "2f"; T%
  C2% = C2% + ZS8%
WEND
PRINT "2x"; C2%
PRINT "end"; T%
