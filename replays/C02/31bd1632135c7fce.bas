C1% = 1
ZL3% = 2
ZS3% = 1
WHILE (ZS3% > 0 AND C1% <= ZL3%) OR (ZS3% < 0 AND C1% >= ZL3%)
  T% = T% + 1
  PRINT "1f"; T%
  C1% = C1% + ZS3%
WEND
PRINT "1x"; C1%
S2% = 2
C2% = 1
ZL8% = 4
ZS8% = S2%
WHILE (ZS8% > 0 AND C2% <= ZL8%) OR (ZS8% < 0 AND C2% >= ZL8%)
  T% = T% + 1
  PRINT "2f"; T%
  C2% = C2% + ZS8%
WEND
PRINT "2x"; C2%
PRINT "end"; T%
