C1% = 0
DO
  C1% = C1% + 1
  T% = T% + 1
  PRINT "1w"; T%
  S2% = 2
  C2% = 1
  ZL7% = 4
  ZS7% = S2%
  WHILE (ZS7% > 0 AND C2% <= ZL7%) OR (ZS7% < 0 AND C2% >= ZL7%)
    T% = T% + 1
    PRINT "2f"; T%
    C2% = C2% + ZS7%
  WEND
  PRINT "2x"; C2%
LOOP UNTIL C1% >= 2
PRINT "end"; T%
