C1% = 0
DO
  C1% = C1% + 1
  T% = T% + 1
  PRINT "1w"; T%
  FOR C2% = 1 TO 2 STEP 1
    T% = T% + 1
    PRINT "2f"; T%
  NEXT C2%
  PRINT "2x"; C2%
LOOP WHILE C1% < 2
PRINT "end"; T%
