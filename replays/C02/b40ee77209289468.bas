IF T% MOD 2 = 0 THEN
  T% = T% + 1
  PRINT "1t"; T%
  C2% = 1
  ZL5% = 4
  ZS5% = 2
  WHILE (ZS5% > 0 AND C2% <= ZL5%) OR (ZS5% < 0 AND C2% >= ZL5%)
    T% = T% + 1
    PRINT "2f"; T%
    C2% = C2% + ZS5%
  WEND
  PRINT "2x"; C2%
ELSE
  T% = T% + 1
  PRINT "1e"; T%
END IF
PRINT "end"; T%
