C1% = 1
ZL3% = 4
ZS3% = 2
WHILE (ZS3% > 0 AND C1% <= ZL3%) OR (ZS3% < 0 AND C1% >= ZL3%)
  T% = T% + 1
  PRINT "1f"; T%
  C1% = C1% + ZS3%
WEND
PRINT "1x"; C1%
PRINT "end"; T%
