SELECT CASE T% MOD 7
CASE 0 TO 1
  T% = T% + 1
  PRINT "1a"; T%
  S2% = 2
  C2% = 1
  ZL6% = 4
  ZS6% = S2%
  WHILE (ZS6% > 0 AND C2% <= ZL6%) OR (ZS6% < 0 AND C2% >= ZL6%)
    T% = T% + 1
    PRINT "2f"; T%
    C2% = C2% + ZS6%
  WEND
  PRINT "2x"; C2%
CASE IS > 5
  T% = T% + 1
  PRINT "1b"; T%
CASE 2, 3 TO 3, 4
  T% = T% + 1
  PRINT "1c"; T%
CASE ELSE
  T% = T% + 1
  PRINT "1e"; T%
END SELECT
PRINT "end"; T%
