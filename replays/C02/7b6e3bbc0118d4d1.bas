C1% = 2
ZL10% = 1
ZS10% = -1
WHILE (ZS10% > 0 AND C1% <= ZL10%) OR (ZS10% < 0 AND C1% >= ZL10%)
  T% = T% + 1
  PRINT "1f"; T%
  SELECT CASE T% MOD 3
  CASE 0
    T% = T% + 1
    PRINT "2a"; T%
  CASE 1
    T% = T% + 1
    PRINT "2b"; T%
  CASE ELSE
    T% = T% + 1
    PRINT "2e"; T%
  END SELECT
  C1% = C1% + ZS10%
WEND
PRINT "1x"; C1%
PRINT "end"; T%
