C1% = 0
DO WHILE C1% < 2
  C1% = C1% + 1
  T% = T% + 1
  PRINT "1w"; T%
LOOP
S2% = 2
C2% = 1
ZL9% = 4
ZS9% = S2%
WHILE (ZS9% > 0 AND C2% <= ZL9%) OR (ZS9% < 0 AND C2% >= ZL9%)
  T% = T% + 1
  PRINT "2f"; T%
  C2% = C2% + ZS9%
WEND
PRINT "2x"; C2%
PRINT "end"; T%
