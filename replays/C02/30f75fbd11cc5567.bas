IF T% MOD 4 = 0 THEN
  T% = T% + 1
  PRINT "1t"; T%
ELSEIF T% MOD 4 = 1 THEN
  T% = T% + 1
  PRINT "1m"; T%
ELSEIF T% MOD 4 = 2 THEN
  T% = T% + 1
  PRINT "1n"; T%
ELSE
  T% = T% + 1
  PRINT "1e"; T%
END IF
S2% = 2
C2% = 1
ZL13% = 4
ZS13% = S2%
WHILE (ZS13% > 0 AND C2% <= ZL13%) OR (ZS13% < 0 AND C2% >= ZL13%)
  T% = T% + 1
  PRINT "2f"; T%
  C2% = C2% + ZS13%
WEND
PRINT "2x"; C2%
PRINT "end"; T%
