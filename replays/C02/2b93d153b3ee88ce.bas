C1% = 2
ZL3% = 1
ZS3% = -1
WHILE (ZS3% > 0 AND C1% <= ZL3%) OR (ZS3% < 0 AND C1% >= ZL3%)
  T% = T% + 1
  PRINT "1f"; T%
  C1% = C1% + ZS3%
WEND
PRINT "1x"; C1%
SELECT CASE T% MOD 7
CASE 0 TO 1
  T% = T% + 1
  PRINT "2a"; T%
CASE IS > 5
  T% = T% + 1
  PRINT "2b"; T%
CASE 2, 3 TO 3, 4
  T% = T% + 1
  PRINT "2c"; T%
CASE ELSE
  T% = T% + 1
  PRINT "2e"; T%
END SELECT
PRINT "end"; T%
