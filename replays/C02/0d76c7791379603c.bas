C1% = 1
ZL8% = 2
ZS8% = 1
WHILE (ZS8% > 0 AND C1% <= ZL8%) OR (ZS8% < 0 AND C1% >= ZL8%)
  T% = T% + 1
  PRINT "1f"; T%
  S2% = 2
  C2% = 1
  ZL6% = 4
  ZS6% = S2%
  WHILE (ZS6% > 0 AND C2% <= ZL6%) OR (ZS6% < 0 AND C2% >= ZL6%)
    T% = T% + 1
    PRINT "2f"; T%
    C2% = C2% + ZS6%
  WEND
  PRINT "2x"; C2%
  C1% = C1% + ZS8%
WEND
PRINT "1x"; C1%
PRINT "end"; T%
