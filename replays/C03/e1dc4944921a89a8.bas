TYPE Rec
  FI AS INTEGER
  FL AS LONG
  FS AS SINGLE
  FD AS DOUBLE
  FT AS STRING * 3
END TYPE
DECLARE SUB Callee (P#)
DECLARE SUB Second (Q#)
DIM R AS Rec
DIM H AS STRING * 3
DIM AR#(2)
LET V# = 1.25#
LET AR#(1) = 1.25#
LET AR#(2) = 7.25#
LET R.FD = 1.25#
CALL Callee((V#))
PRINT "["; V#; "]"
PRINT "["; AR#(1); "]"
PRINT "["; AR#(2); "]"
PRINT "["; R.FD; "]"
SUB Callee (P#)
  PRINT "in"; P#
  CALL Second(P#)
  PRINT "out"; P#
END SUB
SUB Second (Q#)
  LET Q# = 5.25#
END SUB
