TYPE Rec
  FI AS INTEGER
  FL AS LONG
  FS AS SINGLE
  FD AS DOUBLE
  FT AS STRING * 3
END TYPE
DECLARE FUNCTION Callee% (P%)
DECLARE SUB Second (Q%)
DECLARE FUNCTION Give% ()
DIM R AS Rec
DIM H AS STRING * 3
DIM AR%(2)
V% = 1
AR%(1) = 1
AR%(2) = 7
R.FI = 1
X% = Callee%(Give%)
PRINT "["; V%; "]"
PRINT "["; AR%(1); "]"
PRINT "["; AR%(2); "]"
PRINT "["; R.FI; "]"
PRINT "["; X%; "]"
FUNCTION Callee% (P%)
  PRINT "in"; P%
  Second P%
  PRINT "out"; P%
  Callee% = 9
END FUNCTION
SUB Second (Q%)
  Q% = 5
END SUB
FUNCTION Give%
  Give% = 6
END FUNCTION
