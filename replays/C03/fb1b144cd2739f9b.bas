DECLARE SUB Two (A%, B%)
X% = 1
Y% = 2
Two X%, Y%
PRINT X%; Y%
Two X%, X%
PRINT X%
SUB Two (A%, B%)
  A% = 4
  B% = 5
  PRINT A%; B%
END SUB
