DECLARE FUNCTION Sum% (N%)
LET L% = 99
PRINT Sum%(0)
PRINT L%
FUNCTION Sum% (N%)
  PRINT "enter"; N%; L%
  IF N% <= 0 THEN
    LET Sum% = 0
  ELSE
    LET L% = N% * 10
    LET T% = Sum%(N% - 1)
    PRINT "back"; N%; L%
    LET Sum% = T% + L%
  END IF
END FUNCTION
