TYPE Rec
  FI AS INTEGER
  FL AS LONG
  FS AS SINGLE
  FD AS DOUBLE
  FT AS STRING * 3
END TYPE
DECLARE SUB Callee (P$)
DECLARE FUNCTION Give$ ()
DIM R AS Rec
DIM H AS STRING * 3
DIM AR$(2)
V$ = "s1"
AR$(1) = "s1"
AR$(2) = "s7"
R.FT = "abc"
H = "abc"
Callee Give$
PRINT "["; V$; "]"
PRINT "["; AR$(1); "]"
PRINT "["; AR$(2); "]"
PRINT "["; R.FT; "]"
PRINT "["; H; "]"
SUB Callee (P$)
  PRINT "in"; P$
  P$ = "s4"
  P$ = "s5"
  PRINT "out"; P$
END SUB
FUNCTION Give$
  Give$ = "s6"
END FUNCTION
