TYPE Rec
  FI AS INTEGER
  FL AS LONG
  FS AS SINGLE
  FD AS DOUBLE
  FT AS STRING * 3
END TYPE
DECLARE FUNCTION Callee% (P#)
DIM R AS Rec
DIM H AS STRING * 3
DIM AR#(2)
LET V# = 1.25#
LET AR#(1) = 1.25#
LET AR#(2) = 7.25#
LET R.FD = 1.25#
LET X% = Callee%(2.25#)
PRINT "["; V#; "]"
PRINT "["; AR#(1); "]"
PRINT "["; AR#(2); "]"
PRINT "["; R.FD; "]"
PRINT "["; X%; "]"
FUNCTION Callee% (P#)
  PRINT "in"; P#
  PRINT "out"; P#
  LET Callee% = 9
END FUNCTION
