TYPE Rec
  FI AS INTEGER
  FL AS LONG
  FS AS SINGLE
  FD AS DOUBLE
  FT AS STRING * 3
END TYPE
DECLARE FUNCTION Callee% (P$)
DECLARE SUB Second (Q$)
DIM R AS Rec
DIM H AS STRING * 3
DIM AR$(2)
LET V$ = "s1"
LET AR$(1) = "s1"
LET AR$(2) = "s7"
LET R.FT = "abc"
LET H = "abc"
LET X% = Callee%(R.FT)
PRINT "["; V$; "]"
PRINT "["; AR$(1); "]"
PRINT "["; AR$(2); "]"
PRINT "["; R.FT; "]"
PRINT "["; H; "]"
PRINT "["; X%; "]"
FUNCTION Callee% (P$)
  PRINT "in"; P$
  CALL Second(P$)
  PRINT "out"; P$
  LET Callee% = 9
END FUNCTION
SUB Second (Q$)
  LET Q$ = "s5"
END SUB
