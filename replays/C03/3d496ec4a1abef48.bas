TYPE Rec
  FI AS INTEGER
  FL AS LONG
  FS AS SINGLE
  FD AS DOUBLE
  FT AS STRING * 3
END TYPE
DECLARE FUNCTION Callee% (P&)
DECLARE SUB Second (Q&)
DECLARE FUNCTION Give& ()
DIM R AS Rec
DIM H AS STRING * 3
DIM AR&(2)
V& = 100001
AR&(1) = 100001
AR&(2) = 100007
R.FL = 100001
X% = Callee%(Give&)
PRINT "["; V&; "]"
PRINT "["; AR&(1); "]"
PRINT "["; AR&(2); "]"
PRINT "["; R.FL; "]"
PRINT "["; X%; "]"
FUNCTION Callee% (P&)
  PRINT "in"; P&
  Second P&
  PRINT "out"; P&
  Callee% = 9
END FUNCTION
SUB Second (Q&)
  Q& = 100005
END SUB
FUNCTION Give&
  Give& = 100006
END FUNCTION
