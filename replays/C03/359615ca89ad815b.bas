TYPE Rec
  FI AS INTEGER
  FL AS LONG
  FS AS SINGLE
  FD AS DOUBLE
  FT AS STRING * 3
END TYPE
DECLARE FUNCTION Callee% (P%)
DIM R AS Rec
DIM H AS STRING * 3
DIM AR%(2)
LET V% = 1
LET AR%(1) = 1
LET AR%(2) = 7
LET R.FI = 1
LET X% = Callee%(V% + 1)
PRINT "["; V%; "]"
PRINT "["; AR%(1); "]"
PRINT "["; AR%(2); "]"
PRINT "["; R.FI; "]"
PRINT "["; X%; "]"
FUNCTION Callee% (P%)
  PRINT "in"; P%
  LET P% = 4
  LET P% = 5
  PRINT "out"; P%
  LET Callee% = 9
END FUNCTION
