TYPE Rec
  FI AS INTEGER
  FL AS LONG
  FS AS SINGLE
  FD AS DOUBLE
  FT AS STRING * 3
END TYPE
DECLARE FUNCTION Callee% (P&)
DECLARE SUB Second (Q&)
DIM R AS Rec
DIM H AS STRING * 3
DIM AR&(2)
LET V& = 100001
LET AR&(1) = 100001
LET AR&(2) = 100007
LET R.FL = 100001
LET X% = Callee%(V&)
PRINT "["; V&; "]"
PRINT "["; AR&(1); "]"
PRINT "["; AR&(2); "]"
PRINT "["; R.FL; "]"
PRINT "["; X%; "]"
FUNCTION Callee% (P&)
  PRINT "in"; P&
  CALL Second(P&)
  PRINT "out"; P&
  LET Callee% = 9
END FUNCTION
SUB Second (Q&)
  LET Q& = 100005
END SUB
