TYPE Rec
  FI AS INTEGER
  FL AS LONG
  FS AS SINGLE
  FD AS DOUBLE
  FT AS STRING * 3
END TYPE
DECLARE SUB Callee (P%())
DIM R AS Rec
DIM H AS STRING * 3
DIM AR%(2)
LET AR%(1) = 1
CALL Callee(AR%())
PRINT "["; AR%(1); "]"
SUB Callee (P%())
  PRINT "in"; P%(1)
  LET P%(1) = 4
  PRINT "out"; P%(1)
END SUB
