TYPE Rec
  FI AS INTEGER
  FL AS LONG
  FS AS SINGLE
  FD AS DOUBLE
  FT AS STRING * 3
END TYPE
DECLARE SUB Callee (P%)
DECLARE FUNCTION Bump% (B%)
DIM R AS Rec
DIM H AS STRING * 3
DIM AR%(2)
LET V% = 1
LET AR%(1) = 1
LET AR%(2) = 7
LET R.FI = 1
CALL Callee(Bump%(V%))
PRINT "["; V%; "]"
PRINT "["; AR%(1); "]"
PRINT "["; AR%(2); "]"
PRINT "["; R.FI; "]"
SUB Callee (P%)
  PRINT "in"; P%
  PRINT "out"; P%
END SUB
FUNCTION Bump% (B%)
  LET B% = 8
  LET Bump% = 6
END FUNCTION
