TYPE Rec
  FI AS INTEGER
  FL AS LONG
  FS AS SINGLE
  FD AS DOUBLE
  FT AS STRING * 3
END TYPE
DECLARE FUNCTION Callee% (P%)
DECLARE FUNCTION Give% ()
DIM R AS Rec
DIM H AS STRING * 3
DIM AR%(2)
V% = 1
AR%(1) = 1
AR%(2) = 7
R.FI = 1
X% = Callee%(Give%)
PRINT "["; V%; "]"
PRINT "["; AR%(1); "]"
PRINT "["; AR%(2); "]"
PRINT "["; R.FI; "]"
PRINT "["; X%; "]"
FUNCTION Callee% (P%)
  PRINT "in"; P%
  P% = 4
  P% = 5
  PRINT "out"; P%
  Callee% = 9
END FUNCTION
FUNCTION Give%
  Give% = 6
END FUNCTION
