DECLARE SUB S ()
DECLARE SUB O ()
DECLARE SUB P ()
DECLARE FUNCTION F% (X%)
DECLARE SUB Show (V%)
DECLARE FUNCTION R% (N%)
DECLARE SUB T ()
DECLARE SUB Deep (N%)
DIM SHARED G%
PRINT "e"; 0
G% = G% + 1
PRINT "e"; 1
O
PRINT "e"; 2
Deep 2
PRINT "e"; 3
Show F%(1) + 0
PRINT "end"; G%
SUB S STATIC
  C% = C% + 1
  PRINT "S"; C%; G%
END SUB
SUB O
  L% = L% + 1
  PRINT "O"; L%
  S
  PRINT "O2"; L%
END SUB
SUB P
  L% = L% + 10
  G! = 2.5
  G% = G% + 100
  PRINT "P"; L%; G!; G%
END SUB
FUNCTION F% (X%) STATIC
  K% = K% + X%
  F% = K%
END FUNCTION
SUB Show (V%)
  PRINT "show"; V%
END SUB
FUNCTION R% (N%)
  IF N% <= 0 THEN
    R% = 0
  ELSE
    L% = N%
    T% = R%(N% - 1)
    R% = T% + L%
  END IF
END FUNCTION
SUB T STATIC
  D% = D% + 10
  PRINT "T"; D%
  S
  PRINT "T2"; D%
END SUB
SUB Deep (N%)
  L% = N% + 50
  IF N% > 0 THEN
    Deep N% - 1
  ELSE
    S
  END IF
  T
  PRINT "D"; N%; L%
END SUB
