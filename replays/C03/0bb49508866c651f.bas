TYPE Rec
  FI AS INTEGER
  FL AS LONG
  FS AS SINGLE
  FD AS DOUBLE
  FT AS STRING * 3
END TYPE
DECLARE FUNCTION Callee% (P$)
DECLARE SUB Second (Q$)
DECLARE FUNCTION Give$ ()
DIM R AS Rec
DIM H AS STRING * 3
DIM AR$(2)
V$ = "s1"
AR$(1) = "s1"
AR$(2) = "s7"
R.FT = "abc"
H = "abc"
X% = Callee%(Give$)
PRINT "["; V$; "]"
PRINT "["; AR$(1); "]"
PRINT "["; AR$(2); "]"
PRINT "["; R.FT; "]"
PRINT "["; H; "]"
PRINT "["; X%; "]"
FUNCTION Callee% (P$)
  PRINT "in"; P$
  Second P$
  PRINT "out"; P$
  Callee% = 9
END FUNCTION
SUB Second (Q$)
  Q$ = "s5"
END SUB
FUNCTION Give$
  Give$ = "s6"
END FUNCTION
