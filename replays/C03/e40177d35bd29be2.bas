TYPE Rec
  FI AS INTEGER
  FL AS LONG
  FS AS SINGLE
  FD AS DOUBLE
  FT AS STRING * 3
END TYPE
DECLARE FUNCTION Callee% (P%())
DIM R AS Rec
DIM H AS STRING * 3
DIM AR%(2)
LET AR%(1) = 1
LET X% = Callee%(AR%())
PRINT "["; AR%(1); "]"
PRINT "["; X%; "]"
FUNCTION Callee% (P%())
  PRINT "in"; P%(1)
  LET P%(1) = 4
  PRINT "out"; P%(1)
  LET Callee% = 9
END FUNCTION
