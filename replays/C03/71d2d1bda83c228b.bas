DECLARE SUB Two (A%, B%)
LET X% = 1
LET Y% = 2
CALL Two(X%, Y%)
PRINT X%; Y%
CALL Two(X%, X%)
PRINT X%
SUB Two (A%, B%)
  LET A% = 5
  LET B% = 4
  PRINT A%; B%
END SUB
