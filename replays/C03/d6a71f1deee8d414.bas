TYPE Rec
  FI AS INTEGER
  FL AS LONG
  FS AS SINGLE
  FD AS DOUBLE
  FT AS STRING * 3
END TYPE
DECLARE SUB Callee (P$)
DECLARE FUNCTION Give$ ()
DIM R AS Rec
DIM H AS STRING * 3
DIM AR$(2)
LET V$ = "s1"
LET AR$(1) = "s1"
LET AR$(2) = "s7"
LET R.FT = "abc"
LET H = "abc"
CALL Callee(Give$)
PRINT "["; V$; "]"
PRINT "["; AR$(1); "]"
PRINT "["; AR$(2); "]"
PRINT "["; R.FT; "]"
PRINT "["; H; "]"
SUB Callee (P$)
  PRINT "in"; P$
  PRINT "out"; P$
END SUB
FUNCTION Give$
  LET Give$ = "s6"
END FUNCTION
